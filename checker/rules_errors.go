package main

import (
	"fmt"
	"go/constant"
	"go/token"
	"go/types"
	"strings"

	"golang.org/x/tools/go/ssa"
)

// ---- generic engines around the error discipline (used by C07, C05, C08, ...) ------------------

// srcPkgs are the packages whose hand-written code is subject to the rules.
var srcPkgs = []string{"ast", "boltz", "objectz", "zitiql"}

func (c *Ctx) prodFuncs(pkgs ...string) []*ssa.Function {
	var out []*ssa.Function
	for _, fn := range c.P.SrcFuncs(pkgs...) {
		if c.P.isGenerated(fn.Pos()) || c.P.isTestSupport(fn.Pos()) {
			continue
		}
		out = append(out, fn)
	}
	return out
}

// swallowExceptions: functions that deliberately convert an error into a non-error outcome.
// Each entry names ONE function and the reason; the reason is re-checked where it can be.
var swallowExceptions = map[string]string{}

// ruleSwallow: on a branch edge that establishes e != nil for an error-typed value e, every
// return reachable on that edge must carry a non-nil error.
func ruleSwallow(c *Ctx, rule string, fns []*ssa.Function) {
	for _, fn := range fns {
		ei := errorResultIndex(fn.Signature)
		if ei < 0 && !(fn.Pkg != nil && fn.Pkg.Pkg.Name() == "boltz" && testsAnError(fn) && recordsToHolder(fn)) {
			continue
		}
		c.Analysed(FnName(fn))
		fi := ComputeFacts(fn)
		name := FnName(fn)
		nret := 0
		bad := 0
		for _, r := range returnsOf(fn) {
			nret++
			if ei < 0 || len(r.Results) <= ei {
				continue
			}
			v := r.Results[ei]
			k := classifyErr(fi, r.Block(), v, 0)
			if k != errNil {
				continue
			}
			// which error values are known non-nil here?
			var culprit []string
			for f := range fi.At(r.Block()) {
				if f.Kind == "nonnil" && f.Pol && isErrorType(f.V.Type()) {
					culprit = append(culprit, describeValue(f.V))
				}
				// if h.SetError(err) { ... }: true edge means an error was recorded
				if f.Kind == "true" && f.Pol {
					if call, ok := f.V.(*ssa.Call); ok {
						if cal, _ := calleeOf(call.Common()); cal != nil && cal.Name() == "SetError" {
							culprit = append(culprit, "recorded by "+describeValue(f.V))
						}
					}
				}
			}
			if len(culprit) == 0 {
				continue
			}
			if fallbackRecovered(fi, r, ei) {
				c.OK(rule, name+": fallback", c.P.Pos(r.Pos()), "a first attempt failed, a second computation made after that failure succeeded (its error is known nil here) and produced what is returned: the first error is superseded, not swallowed")
				continue
			}
			if why, ok := swallowExceptions[name]; ok {
				c.OK(rule, name, c.P.Pos(r.Pos()), "tabled exception: "+why)
				continue
			}
			bad++
			c.Bad(rule, name, c.P.Pos(r.Pos()),
				fmt.Sprintf("returns a nil error on a path where %s is known to be non-nil (facts: %s)", strings.Join(culprit, ", "), fi.Describe(r.Block())))
		}
		// observed but lost: for an error value with a nil test, no path may lead from the non-nil side of
		// the test to a return that does not report a failure WITHOUT touching the error on the way
		// (returning it, wrapping it, recording it, logging it, passing it to a predicate).  This covers
		// `if err != nil { break }` as well as `if err != nil { if gone { continue } ; return err }`.
		for _, b := range fn.Blocks {
			for _, in := range b.Instrs {
				v, isVal := in.(ssa.Value)
				if !isVal || !isErrorType(v.Type()) {
					continue
				}
				switch in.(type) {
				case *ssa.Call, *ssa.Extract:
				default:
					continue
				}
				var tests []*ssa.BinOp
				uses := map[ssa.Instruction]bool{}
				var collect func(x ssa.Value, depth int)
				collect = func(x ssa.Value, depth int) {
					if depth > 3 {
						return
					}
					for _, r := range *x.Referrers() {
						switch y := r.(type) {
						case *ssa.DebugRef:
						case *ssa.BinOp:
							if (y.Op == token.EQL || y.Op == token.NEQ) && (isNilConst(y.X) || isNilConst(y.Y)) {
								if x == v {
									tests = append(tests, y)
								}
							} else {
								uses[y] = true
							}
						case *ssa.Phi:
							// the value travels on (result slot, merged error variable): its uses are uses
							collect(y, depth+1)
							uses[y] = false
						case *ssa.Store:
							if al, isAl := y.Addr.(*ssa.Alloc); isAl {
								// spilled local: loads of it are uses
								for _, ar := range *al.Referrers() {
									if ld, isLd := ar.(*ssa.UnOp); isLd {
										collect(ld, depth+1)
									}
								}
							}
							uses[y] = true
						default:
							uses[r] = true
						}
					}
				}
				collect(v, 0)
				if len(tests) == 0 {
					continue
				}
				isUse := func(x ssa.Instruction) bool { return uses[x] }
				for _, t := range tests {
					for _, r := range *t.Referrers() {
						iff, isIf := r.(*ssa.If)
						if !isIf || len(iff.Block().Succs) != 2 {
							continue
						}
						succ := iff.Block().Succs[0]
						if t.Op == token.EQL {
							succ = iff.Block().Succs[1]
						}
						ps := &pathSearch{fn: fn, fi: fi, start: succ, startKnow: stepKnow(fi, iff.Block(), succ, knowMap{}), stop: isUse}
						// a function without an error result reports through an error holder / sink: every
						// return is an "unreported" end unless the error was handed somewhere before it
						ps.atReturn = func(ret *ssa.Return, k knowMap) bool { return ei < 0 || !returnIsFailure(fi, ret, ei, k) }
						if ps.run() {
							if fr, isRet := ps.Found.(*ssa.Return); isRet && ei >= 0 && fallbackRecovered(fi, fr, ei) {
								continue
							}
							if why, ok := swallowExceptions[name]; ok {
								c.OK(rule, name, c.P.Pos(t.Pos()), "tabled exception: "+why)
								continue
							}
							bad++
							c.Bad(rule, name+": "+describeValue(v), c.P.Pos(t.Pos()), "on the side where this error is non-nil a return that does not report a failure (at "+c.P.Pos(ps.Found.Pos())+") is reachable without the error being returned, wrapped, recorded or even looked at: the failure is lost on that path")
						}
					}
				}
			}
		}
		if bad == 0 {
			c.OK(rule, name, c.P.Pos(fn.Pos()), fmt.Sprintf("%d return(s): none returns nil while an error value is known non-nil", nret))
		}
	}
}

// fallbackRecovered: at return r some earlier error is known non-nil, but the value returned comes from a
// LATER fallible call — one made where that failure was already known — whose own error is known nil at r
// (parse as integer, else parse as float; look up here, else look up there).
func fallbackRecovered(fi *FactInfo, r *ssa.Return, ei int) bool {
	if r == nil {
		return false
	}
	facts := fi.At(r.Block())
	var failed []ssa.Value
	for f := range facts {
		if f.Kind == "nonnil" && f.Pol && isErrorType(f.V.Type()) {
			failed = append(failed, f.V)
		}
	}
	if len(failed) == 0 {
		return false
	}
	var derives func(v ssa.Value, from *ssa.Call, depth int) bool
	derives = func(v ssa.Value, from *ssa.Call, depth int) bool {
		if v == nil || depth > 6 {
			return false
		}
		if v == ssa.Value(from) {
			return true
		}
		switch x := v.(type) {
		case *ssa.Extract:
			return x.Tuple == ssa.Value(from)
		case *ssa.Alloc:
			// a composite built from the value
			for _, ref := range *x.Referrers() {
				if fa, ok := ref.(*ssa.FieldAddr); ok {
					for _, fr := range *fa.Referrers() {
						if st, ok := fr.(*ssa.Store); ok && derives(st.Val, from, depth+1) {
							return true
						}
					}
				}
			}
			return false
		}
		in, ok := v.(ssa.Instruction)
		if !ok {
			return false
		}
		for _, op := range in.Operands(nil) {
			if *op != nil && derives(*op, from, depth+1) {
				return true
			}
		}
		return false
	}
	for f := range facts {
		if f.Kind != "nonnil" || f.Pol || !isErrorType(f.V.Type()) {
			continue
		}
		// f.V is an error known nil here: the later call it belongs to
		var call *ssa.Call
		switch x := f.V.(type) {
		case *ssa.Extract:
			call, _ = x.Tuple.(*ssa.Call)
		case *ssa.Call:
			call = x
		}
		if call == nil {
			continue
		}
		// made where an earlier failure was already known
		after := false
		for _, e := range failed {
			if fi.Holds(call.Block(), Fact{"nonnil", e, true}) {
				after = true
			}
		}
		if !after {
			continue
		}
		for i, res := range r.Results {
			if i != ei && derives(res, call, 0) {
				return true
			}
		}
	}
	return false
}

// testsAnError: the function compares an error-typed call result with nil.
func testsAnError(fn *ssa.Function) bool {
	for _, b := range fn.Blocks {
		for _, in := range b.Instrs {
			bo, ok := in.(*ssa.BinOp)
			if !ok || (bo.Op != token.EQL && bo.Op != token.NEQ) {
				continue
			}
			if (isNilConst(bo.X) && isErrorType(bo.Y.Type())) || (isNilConst(bo.Y) && isErrorType(bo.X.Type())) {
				return true
			}
		}
	}
	return false
}

// recordsToHolder: the function reports failures through an error holder (a call of a SetError method);
// such a function's contract is "every failure reaches the holder", which is what gives its plain
// returns the meaning "nothing failed".
func recordsToHolder(fn *ssa.Function) bool {
	for _, ci := range callsIn(fn) {
		if ci.Common().IsInvoke() && ci.Common().Method.Name() == "SetError" {
			return true
		}
		if cal, _ := calleeOf(ci.Common()); cal != nil && cal.Name() == "SetError" {
			return true
		}
	}
	return false
}

func describeValue(v ssa.Value) string {
	switch x := v.(type) {
	case *ssa.Call:
		if f, _ := calleeOf(x.Common()); f != nil {
			return "result of " + shortObj(f)
		}
		return "result of call " + x.Common().Value.Name()
	case *ssa.Extract:
		return fmt.Sprintf("result #%d of %s", x.Index, strings.TrimPrefix(describeValue(x.Tuple), "result of "))
	case *ssa.Parameter:
		return "parameter " + x.Name()
	case *ssa.Phi:
		if x.Comment != "" {
			return "variable " + x.Comment
		}
	case *ssa.UnOp:
		if f, base := loadedField(x); f != nil {
			return "field " + f.Name() + " of " + describeValue(base)
		}
	}
	return v.Name() + " (" + v.Type().String() + ")"
}

// dropExceptions: call sites allowed to discard an error, keyed "caller -> callee".
var dropExceptions = map[string]string{
	"(*boltz.DbImpl).MarkAsSnapshot$1 -> (*boltz.DbImpl).Close": "deferred close of the scratch handle opened on the snapshot copy; the copy's content was already committed by db.Update, whose error is returned",
}

// ruleDrop: no call result of type error is discarded.
func ruleDrop(c *Ctx, rule string, fns []*ssa.Function) {
	for _, fn := range fns {
		c.Analysed(FnName(fn))
		name := FnName(fn)
		ncalls, bad := 0, 0
		for _, ci := range callsIn(fn) {
			sig := ci.Common().Signature()
			ei := errorResultIndex(sig)
			if ei < 0 {
				continue
			}
			ncalls++
			callee, _ := calleeOf(ci.Common())
			calleeName := "func value " + ci.Common().Value.Name()
			if callee != nil {
				calleeName = shortObj(callee)
			} else if ci.Common().IsInvoke() {
				calleeName = ci.Common().Method.FullName()
			}
			used := false
			switch call := ci.(type) {
			case *ssa.Call:
				if sig.Results().Len() == 1 {
					used = hasRealReferrer(call)
				} else {
					for _, ref := range *call.Referrers() {
						if ex, ok := ref.(*ssa.Extract); ok && ex.Index == ei && hasRealReferrer(ex) {
							used = true
						}
					}
				}
			case *ssa.Defer, *ssa.Go:
				used = false
			}
			if used {
				continue
			}
			// fmt printing and hash writers never fail meaningfully; restrict to non-fmt callees
			if callee != nil && callee.Pkg() != nil {
				switch callee.Pkg().Path() {
				case "fmt":
					ncalls--
					continue
				}
				if callee.Pkg().Path() == "strings" && strings.HasPrefix(callee.Name(), "Write") {
					ncalls--
					continue
				}
			}
			key := name + " -> " + calleeName
			if onlyRelaysNilCallback(ci) {
				c.OK(rule, key, c.P.Pos(ci.Pos()), "the callee's only error source is the callback handed to it here, and that callback returns nil on every path")
				continue
			}
			if sc := ci.Common().StaticCallee(); sc != nil && returnsRecordedError(sc, ei) {
				c.OK(rule, key, c.P.Pos(ci.Pos()), "the callee returns what it has also recorded in the error holder of its receiver: the caller may rely on the holder")
				continue
			}
			if why, ok := dropExceptions[key]; ok {
				c.OK(rule, key, c.P.Pos(ci.Pos()), "tabled exception: "+why)
				continue
			}
			bad++
			c.Bad(rule, key, c.P.Pos(ci.Pos()), "the error result of this call is discarded")
		}
		c.CallSites(ncalls)
		if ncalls > 0 && bad == 0 {
			c.OK(rule, name, c.P.Pos(fn.Pos()), fmt.Sprintf("%d error-returning call(s), every error result is bound and used", ncalls))
		}
	}
}

func hasRealReferrer(v ssa.Value) bool {
	refs := v.Referrers()
	if refs == nil {
		return false
	}
	for _, r := range *refs {
		if _, ok := r.(*ssa.DebugRef); ok {
			continue
		}
		return true
	}
	return false
}

// sigHasError reports whether t (a func type) returns an error.
func sigHasError(t types.Type) bool {
	s, ok := t.Underlying().(*types.Signature)
	return ok && errorResultIndex(s) >= 0
}

// ruleOverwrite: an error produced inside a loop must be examined (tested, returned, recorded)
// inside that loop; if its only route out is a phi that the next iteration overwrites, an earlier
// failure is lost when a later call succeeds.
func ruleOverwrite(c *Ctx, rule string, fns []*ssa.Function) {
	p := c.P
	for _, fn := range fns {
		loops := loopsOf(fn)
		if len(loops) == 0 {
			continue
		}
		name := FnName(fn)
		n, bad := 0, 0
		for _, call := range callsIn(fn) {
			cv, ok := call.(*ssa.Call)
			if !ok {
				continue
			}
			sig := cv.Call.Signature()
			ei := errorResultIndex(sig)
			if ei < 0 {
				continue
			}
			l := innermostLoop(loops, cv.Block())
			if l == nil {
				continue
			}
			var ev ssa.Value = cv
			if sig.Results().Len() > 1 {
				ev = nil
				for _, r := range *cv.Referrers() {
					if ex, ok := r.(*ssa.Extract); ok && ex.Index == ei {
						ev = ex
					}
				}
				if ev == nil {
					continue // dropped: reported by DROP
				}
			}
			n++
			// a direct (non-phi) use examines exactly this iteration's error; uses that are only
			// reached through a phi see whatever the last iteration produced
			// (a phi that merely joins branches of the same iteration — not a header of a loop that
			// contains the call — still carries exactly this iteration's value: it is followed)
			examinedInLoop := false
			seenV := map[ssa.Value]bool{}
			var examined func(v ssa.Value)
			examined = func(v ssa.Value) {
				if seenV[v] || examinedInLoop {
					return
				}
				seenV[v] = true
				for _, r := range *v.Referrers() {
					switch x := r.(type) {
					case *ssa.DebugRef:
					case *ssa.Phi:
						carried := false
						for _, lp := range loops {
							if lp.Header == x.Block() && lp.Blocks[cv.Block()] {
								carried = true
							}
						}
						if !carried && l.Blocks[x.Block()] {
							examined(x)
						}
					default:
						examinedInLoop = true
					}
				}
			}
			examined(ev)
			if !hasRealReferrer(ev) {
				continue
			}
			if !examinedInLoop {
				bad++
				callee := "call"
				if f, _ := calleeOf(cv.Common()); f != nil {
					callee = shortObj(f)
				} else {
					callee = "call through " + cv.Call.Value.Name()
				}
				c.Bad(rule, name+": "+callee, p.Pos(cv.Pos()), "the error of this call, made inside a loop, is only carried to the next iteration / the code after the loop: a later iteration overwrites it, so a failure followed by a success is reported as success")
			}
		}
		if n > 0 && bad == 0 {
			c.Analysed(name)
			c.OK(rule, name, p.Pos(fn.Pos()), fmt.Sprintf("%d error-returning call(s) inside loops, each examined before the next iteration", n))
		}
	}
}

// ruleProceedTable: TypedBucket.ProceedWithSet may answer true only while the bucket has no error
// (every direct `.Err =` in the setters relies on it) and, with a checker, only for selected fields.
func ruleProceedTable(c *Ctx, rule string) {
	p := c.P
	fn := p.SSAFunc(p.Method("boltz", "TypedBucket", "ProceedWithSet"))
	name := FnName(fn)
	c.Analysed(name)
	h := newHolderInfo(c)
	ok, why, rows := true, "", 0
	for _, errNil := range []bool{true, false} {
		for _, chkNil := range []bool{true, false} {
			for _, updated := range []bool{true, false} {
				rows++
				res, derr := Decide(fn, func(v ssa.Value) (AV, bool) {
					if f, _ := loadedField(v); sameVar(f, h.errField) {
						if errNil {
							return AV{Kind: "nil"}, true
						}
						return AV{Kind: "nonnil"}, true
					}
					if v == ssa.Value(fn.Params[2]) {
						if chkNil {
							return AV{Kind: "nil"}, true
						}
						return AV{Kind: "nonnil"}, true
					}
					if call, isCall := v.(*ssa.Call); isCall && call.Call.IsInvoke() && call.Call.Method.Name() == "IsUpdated" {
						return avBool(updated), true
					}
					if call, isCall := v.(*ssa.Call); isCall {
						if cal, _ := calleeOf(call.Common()); cal != nil && cal.Name() == "HasError" {
							return avBool(!errNil), true
						}
					}
					return AV{}, false
				}, nil)
				want := errNil && (chkNil || updated)
				if derr != "" {
					ok, why = false, "not decidable: "+derr
				} else if res[0].Kind != "const" || constant.BoolVal(res[0].C) != want {
					ok, why = false, fmt.Sprintf("bucketErrNil=%v checkerNil=%v fieldSelected=%v -> %v, expected %v", errNil, chkNil, updated, res[0], want)
				}
			}
		}
	}
	c.Check(ok, rule, name, p.Pos(fn.Pos()), fmt.Sprintf("answers true exactly when the bucket has no error and (no checker or the checker selects the field): %d rows", rows), "ProceedWithSet "+why+" — a later setter would overwrite an earlier recorded error (e.g. a constraint veto) or write an unselected field")
}

// onlyRelaysNilCallback: the static callee of ci returns, as its error, only nil or the result of
// calling one of its function parameters, and at this call the function handed in for every such
// parameter is a literal closure that returns nil on every path.  Discarding that error loses nothing.
func onlyRelaysNilCallback(ci ssa.CallInstruction) bool {
	cc := ci.Common()
	f := cc.StaticCallee()
	if f == nil || f.Blocks == nil {
		return false
	}
	ei := errorResultIndex(f.Signature)
	if ei < 0 {
		return false
	}
	relayed := map[int]bool{}
	var okVal func(v ssa.Value, depth int) bool
	okVal = func(v ssa.Value, depth int) bool {
		if depth > 4 {
			return false
		}
		if isNilConst(v) {
			return true
		}
		switch x := v.(type) {
		case *ssa.Phi:
			for _, e := range x.Edges {
				if !okVal(e, depth+1) {
					return false
				}
			}
			return true
		case *ssa.UnOp:
			// the result slot of a function with defers
			if al, isAl := x.X.(*ssa.Alloc); isAl && x.Op == token.MUL {
				n := 0
				for _, r := range *al.Referrers() {
					if st, isSt := r.(*ssa.Store); isSt && st.Addr == ssa.Value(al) {
						n++
						if !okVal(st.Val, depth+1) {
							return false
						}
					}
				}
				return n > 0
			}
		case *ssa.Call:
			if prm, ok := x.Call.Value.(*ssa.Parameter); ok && !x.Call.IsInvoke() {
				for i, q := range f.Params {
					if q == prm {
						relayed[i] = true
						return true
					}
				}
			}
		}
		return false
	}
	for _, r := range returnsOf(f) {
		if r.Block() == f.Recover {
			continue
		}
		if ei >= len(r.Results) || !okVal(r.Results[ei], 0) {
			return false
		}
	}
	if len(relayed) == 0 {
		return false
	}
	for i := range relayed {
		if i >= len(cc.Args) {
			return false
		}
		cl := anonFromArg(cc.Args[i])
		if cl == nil || cl.Blocks == nil {
			return false
		}
		cei := errorResultIndex(cl.Signature)
		for _, r := range returnsOf(cl) {
			if cei < 0 || !isNilConst(r.Results[cei]) {
				return false
			}
		}
	}
	return true
}

// returnsRecordedError: every error this function returns is one it has also stored in an error field of an
// object it was given (bucket.Err = ...; return bucket.Err): a caller that ignores the result loses nothing,
// the holder still has it.
func returnsRecordedError(fn *ssa.Function, ei int) bool {
	if fn.Blocks == nil || fn.Pkg == nil || !strings.HasPrefix(fn.Pkg.Pkg.Path(), modPath) {
		return false
	}
	rootedAtParam := func(addr ssa.Value) bool {
		for i := 0; i < 6; i++ {
			switch x := addr.(type) {
			case *ssa.FieldAddr:
				addr = x.X
			case *ssa.UnOp:
				addr = x.X
			case *ssa.Parameter:
				return true
			default:
				return false
			}
		}
		return false
	}
	errField := func(addr ssa.Value) bool {
		fa, ok := addr.(*ssa.FieldAddr)
		if !ok || !rootedAtParam(fa.X) {
			return false
		}
		pt, isP := fa.Type().(*types.Pointer)
		return isP && isErrorType(pt.Elem())
	}
	stored := map[ssa.Value]bool{}
	for _, b := range fn.Blocks {
		for _, in := range b.Instrs {
			if st, ok := in.(*ssa.Store); ok && errField(st.Addr) {
				stored[st.Val] = true
			}
		}
	}
	var ok func(v ssa.Value, depth int) bool
	ok = func(v ssa.Value, depth int) bool {
		if depth > 4 {
			return false
		}
		if isNilConst(v) || stored[v] {
			return true
		}
		switch x := v.(type) {
		case *ssa.UnOp:
			return x.Op == token.MUL && errField(x.X)
		case *ssa.Phi:
			for _, e := range x.Edges {
				if !ok(e, depth+1) {
					return false
				}
			}
			return len(x.Edges) > 0
		}
		return false
	}
	rets := returnsOf(fn)
	for _, r := range rets {
		if ei >= len(r.Results) || !ok(r.Results[ei], 0) {
			return false
		}
	}
	return len(rets) > 0
}
