package main

// Normalisation: the rules are run on a program in which every static call to an unexported,
// non-recursive helper of the same package has been expanded in place (bounded depth), so that
// "extract function" / "inline function" edits do not change what the rules see.
//
// The expansion is done on the syntax trees, which are then type-checked again and given to go/ssa:
//
//	x := recv.h(a, b)        var __h1_recv *T = recv            (receiver and arguments are evaluated
//	                    =>    var __h1_p0 A = a                   once, in call order, into typed temps)
//	                          var __h1_p1 B = b
//	                          var __h1_r0 R
//	                          __h1: switch { default:
//	                              recv, a, b := __h1_recv, __h1_p0, __h1_p1
//	                              <body, with `return e` => `__h1_r0 = e; break __h1`>
//	                          }
//	                          x := __h1_r0
//
// Copied statements keep their original positions, so a report inside expanded code still names the
// helper's file:line.  A call is expanded only where this is behaviour-preserving by construction
// (see eligible / hoistable below); everything else is left alone.  If the transformed package does
// not type-check, the offending functions are reverted; if it still does not, the load fails.

import (
	"embed"
	"fmt"
	"go/ast"
	"go/constant"
	"go/parser"
	"go/token"
	"go/types"
	"os"
	"reflect"
	"regexp"
	"sort"
	"strings"

	"golang.org/x/tools/go/packages"
)

//go:embed *.go
var checkerSources embed.FS

// anchorWords: every identifier-like word that occurs inside a string literal of the checker's own
// sources.  An unexported helper whose name is one of these words may be an anchor of some rule
// (looked up by name, or named in an exception table) and is never expanded.
var anchorWords = func() map[string]bool {
	out := map[string]bool{}
	ents, _ := checkerSources.ReadDir(".")
	lit := regexp.MustCompile("\"(?:[^\"\\\\\n]|\\\\.)*\"|`[^`]*`")
	single := regexp.MustCompile(`^[A-Za-z_][A-Za-z0-9_]*$`)
	recvQual := regexp.MustCompile(`\)\.([A-Za-z_][A-Za-z0-9_]*)`)
	pkgQual := regexp.MustCompile(`\b(?:ast|boltz|objectz|zitiql|boltztest)\.([A-Za-z_][A-Za-z0-9_]*)(?:\[[A-Za-z]*\])?(?:\.([A-Za-z_][A-Za-z0-9_]*))?`)
	for _, e := range ents {
		if e.Name() == "normalize.go" {
			continue
		}
		b, err := checkerSources.ReadFile(e.Name())
		if err != nil {
			continue
		}
		for _, l := range lit.FindAll(b, -1) {
			body := string(l[1 : len(l)-1])
			if single.MatchString(body) {
				out[body] = true // a name looked up by itself: p.Method("boltz", "T", "m"), cal.Name() == "m"
			}
			// names inside table keys and messages: (*pkg.T).m, pkg.T.m, pkg.f
			for _, m := range recvQual.FindAllStringSubmatch(body, -1) {
				out[m[1]] = true
			}
			for _, m := range pkgQual.FindAllStringSubmatch(body, -1) {
				out[m[1]] = true
				if m[2] != "" {
					out[m[2]] = true
				}
			}
		}
	}
	// helpers that rules treat as a boundary without naming them in a lookup
	for _, w := range []string{"nextUnpaged"} {
		out[w] = true
	}
	return out
}()

const maxInlineDepth = 4

var (
	debugNormalize = false
	debugOut       = os.Stderr
)

type normStats struct {
	Dead         map[string]bool // helpers (types.Func.FullName) with no reference left after expansion
	Expanded     int             // call sites expanded
	MethodValues int             // locals bound to a method value rewritten to direct method calls
	Funcs        int             // functions whose body changed
	Reverted     int             // functions reverted after a type error
	Helpers      map[string]int
	SkippedWhy   map[string]int
}

type normalizer struct {
	fset  *token.FileSet
	pkg   *packages.Package
	info  *types.Info
	decls map[*types.Func]*ast.FuncDecl
	file  map[*ast.FuncDecl]*ast.File
	elig  map[*types.Func]string // "" = eligible, else reason
	rec   map[*types.Func]bool   // on a static-call cycle
	orig  map[ast.Node]ast.Node  // clone -> original (for info lookups)
	// mvRecvType: the saved receiver of a propagated method value (a synthesized identifier) -> the original
	// receiver expression, whose type it has
	mvRecvType map[*ast.Ident]ast.Expr
	seq        int
	stats      *normStats
	gen        func(token.Pos) bool

	// per top-level function being transformed
	curFile  *ast.File
	needImps map[string]string // local name -> path, to add to curFile
}

// o returns the original node of a (possibly cloned) node.
func (n *normalizer) o(x ast.Node) ast.Node {
	for {
		y, ok := n.orig[x]
		if !ok {
			return x
		}
		x = y
	}
}

func (n *normalizer) useOf(id *ast.Ident) types.Object {
	oid, _ := n.o(id).(*ast.Ident)
	if oid == nil {
		return nil
	}
	if ob := n.info.Uses[oid]; ob != nil {
		return ob
	}
	return n.info.Defs[oid]
}

func (n *normalizer) typeOf(e ast.Expr) types.Type {
	oe, _ := n.o(e).(ast.Expr)
	if oe == nil {
		return nil
	}
	if id, isId := oe.(*ast.Ident); isId {
		if ox := n.mvRecvType[id]; ox != nil {
			return n.info.TypeOf(ox)
		}
	}
	return n.info.TypeOf(oe)
}

// ---- cloning -----------------------------------------------------------------------------------

var (
	astNodeIface = reflect.TypeOf((*ast.Node)(nil)).Elem()
	objPtrType   = reflect.TypeOf((*ast.Object)(nil))
	scopePtrType = reflect.TypeOf((*ast.Scope)(nil))
	cgPtrType    = reflect.TypeOf((*ast.CommentGroup)(nil))
)

func (n *normalizer) clone(x ast.Node) ast.Node {
	if x == nil || reflect.ValueOf(x).IsNil() {
		return x
	}
	v := n.cloneValue(reflect.ValueOf(x))
	return v.Interface().(ast.Node)
}

func (n *normalizer) cloneValue(v reflect.Value) reflect.Value {
	switch v.Kind() {
	case reflect.Ptr:
		if v.IsNil() {
			return v
		}
		if v.Type() == objPtrType || v.Type() == scopePtrType || v.Type() == cgPtrType {
			return reflect.Zero(v.Type())
		}
		if v.Elem().Kind() != reflect.Struct {
			return v
		}
		nv := reflect.New(v.Elem().Type())
		for i := 0; i < v.Elem().NumField(); i++ {
			f := v.Elem().Field(i)
			if !nv.Elem().Field(i).CanSet() {
				continue
			}
			nv.Elem().Field(i).Set(n.cloneValue(f))
		}
		if on, ok := v.Interface().(ast.Node); ok {
			n.orig[nv.Interface().(ast.Node)] = on
		}
		return nv
	case reflect.Interface:
		if v.IsNil() {
			return v
		}
		c := n.cloneValue(v.Elem())
		nv := reflect.New(v.Type()).Elem()
		nv.Set(c)
		return nv
	case reflect.Slice:
		if v.IsNil() {
			return v
		}
		nv := reflect.MakeSlice(v.Type(), v.Len(), v.Len())
		for i := 0; i < v.Len(); i++ {
			nv.Index(i).Set(n.cloneValue(v.Index(i)))
		}
		return nv
	default:
		return v
	}
}

// ---- eligibility -------------------------------------------------------------------------------

func (n *normalizer) computeEligibility() {
	// static same-package call edges, to find recursion
	edges := map[*types.Func][]*types.Func{}
	for fn, fd := range n.decls {
		if fd.Body == nil {
			continue
		}
		ast.Inspect(fd.Body, func(x ast.Node) bool {
			if call, ok := x.(*ast.CallExpr); ok {
				if cal := n.staticCallee(call); cal != nil && n.decls[cal] != nil {
					edges[fn] = append(edges[fn], cal)
				}
			}
			// a function mentioned as a value may also be called back
			if id, ok := x.(*ast.Ident); ok {
				if f, ok := n.info.Uses[id].(*types.Func); ok && n.decls[f.Origin()] != nil {
					edges[fn] = append(edges[fn], f.Origin())
				}
			}
			return true
		})
	}
	// rec[f]: f can reach itself
	for fn := range n.decls {
		seen := map[*types.Func]bool{}
		var st []*types.Func
		st = append(st, edges[fn]...)
		for len(st) > 0 {
			g := st[len(st)-1]
			st = st[:len(st)-1]
			if g == fn {
				n.rec[fn] = true
				break
			}
			if seen[g] {
				continue
			}
			seen[g] = true
			st = append(st, edges[g]...)
		}
	}
	for fn, fd := range n.decls {
		n.elig[fn] = n.eligibleReason(fn, fd)
	}
}

func recvTypeName(fn *types.Func) string {
	sig := fn.Type().(*types.Signature)
	if sig.Recv() == nil {
		return ""
	}
	if nm := namedOf(sig.Recv().Type()); nm != nil {
		return nm.Obj().Name()
	}
	return "?"
}

func (n *normalizer) eligibleReason(fn *types.Func, fd *ast.FuncDecl) string {
	switch {
	case fd.Body == nil:
		return "no body"
	case fn.Exported():
		return "exported"
	case anchorWords[fn.Name()]:
		return "anchor word"
	case n.pkg != nil && n.pkg.Name == "ast" && mentionsSelector(fd, "strings", "ToUpper"):
		return "anchor by role (the upper-casing helper of the case-insensitive operators, under whatever name)"
	case n.rec[fn]:
		return "recursive"
	case n.gen(fd.Pos()):
		return "generated"
	case strings.HasSuffix(n.fset.Position(fd.Pos()).Filename, "_test.go"):
		return "test file"
	case strings.HasPrefix(fn.Name(), "zzControl"):
		return "control"
	case fn.Name() == "init" || fn.Name() == "main":
		return "init"
	}
	why := ""
	ast.Inspect(fd.Body, func(x ast.Node) bool {
		switch y := x.(type) {
		case *ast.FuncLit:
			return false // its own defers/returns are its own
		case *ast.DeferStmt:
			why = "defer"
		case *ast.BranchStmt:
			if y.Tok == token.GOTO {
				why = "goto"
			}
		case *ast.CallExpr:
			if id, ok := y.Fun.(*ast.Ident); ok && id.Name == "recover" {
				if _, isB := n.info.Uses[id].(*types.Builtin); isB {
					why = "recover"
				}
			}
			if sel, ok := y.Fun.(*ast.SelectorExpr); ok {
				if f, ok := n.info.Uses[sel.Sel].(*types.Func); ok && f.Pkg() != nil && f.Pkg().Path() == "runtime" && strings.HasPrefix(f.Name(), "Caller") {
					why = "stack-sensitive"
				}
			}
		}
		return why == ""
	})
	return why
}

// staticCallee resolves a call (original or cloned) to a function declared in this package.
func (n *normalizer) staticCallee(call *ast.CallExpr) *types.Func {
	fun := ast.Unparen(call.Fun)
	switch ix := fun.(type) {
	case *ast.IndexExpr:
		if _, isId := ix.X.(*ast.Ident); isId {
			fun = ix.X
		}
	case *ast.IndexListExpr:
		if _, isId := ix.X.(*ast.Ident); isId {
			fun = ix.X
		}
	}
	var id *ast.Ident
	switch f := fun.(type) {
	case *ast.Ident:
		id = f
	case *ast.SelectorExpr:
		id = f.Sel
		osel, _ := n.o(f).(*ast.SelectorExpr)
		if osel != nil {
			if s := n.info.Selections[osel]; s != nil {
				if s.Kind() != types.MethodVal {
					return nil
				}
				if _, isIface := s.Recv().Underlying().(*types.Interface); isIface {
					return nil
				}
				if _, isTP := s.Recv().(*types.TypeParam); isTP {
					return nil
				}
			}
		}
	default:
		return nil
	}
	f, ok := n.useOf(id).(*types.Func)
	if !ok || f.Pkg() != n.pkg.Types {
		return nil
	}
	return f.Origin()
}

// ---- purity of expressions evaluated before a hoisted call ---------------------------------------

var pureBuiltins = map[string]bool{"len": true, "cap": true, "append": true, "make": true, "new": true, "min": true, "max": true, "complex": true, "real": true, "imag": true}

type hoistScan struct {
	n      *normalizer
	st     *inlState
	target *ast.Expr // slot holding the first expandable call
	stop   bool      // an effect was met: nothing later may be hoisted
}

func (h *hoistScan) done() bool { return h.stop || h.target != nil }

// visit walks e in evaluation order.
func (h *hoistScan) visit(slot *ast.Expr) {
	if h.done() || *slot == nil {
		return
	}
	if oe, isExpr := h.n.o(*slot).(ast.Expr); isExpr {
		if tv, has := h.n.info.Types[oe]; has && tv.IsType() {
			return // a type expression (make/new/conversion operand)
		}
	}
	switch e := (*slot).(type) {
	case *ast.Ident, *ast.BasicLit, *ast.FuncLit:
	case *ast.ParenExpr:
		h.visit(&e.X)
	case *ast.SelectorExpr:
		if id, ok := e.X.(*ast.Ident); ok {
			if _, isPkg := h.n.useOf(id).(*types.PkgName); isPkg {
				return
			}
		}
		h.visit(&e.X)
	case *ast.StarExpr:
		h.visit(&e.X)
	case *ast.UnaryExpr:
		if e.Op == token.ARROW {
			h.stop = true
			return
		}
		h.visit(&e.X)
	case *ast.BinaryExpr:
		h.visit(&e.X)
		if h.done() {
			return
		}
		if e.Op == token.LAND || e.Op == token.LOR {
			// the right operand is evaluated conditionally: nothing in it, or after it, is hoisted
			// past it unless it is free of calls
			if containsCallOrRecv(e.Y) {
				h.stop = true
			}
			return
		}
		h.visit(&e.Y)
	case *ast.KeyValueExpr:
		if _, isField := e.Key.(*ast.Ident); !isField {
			h.visit(&e.Key)
		}
		h.visit(&e.Value)
	case *ast.CompositeLit:
		for i := range e.Elts {
			h.visit(&e.Elts[i])
		}
	case *ast.IndexExpr:
		h.visit(&e.X)
		h.visit(&e.Index)
	case *ast.IndexListExpr:
		h.visit(&e.X)
	case *ast.SliceExpr:
		h.visit(&e.X)
		h.visit(&e.Low)
		h.visit(&e.High)
		h.visit(&e.Max)
	case *ast.TypeAssertExpr:
		h.visit(&e.X)
	case *ast.CallExpr:
		// conversion?
		if tv, ok := h.n.info.Types[h.n.o(e.Fun).(ast.Expr)]; ok && tv.IsType() {
			for i := range e.Args {
				h.visit(&e.Args[i])
			}
			return
		}
		if id, ok := ast.Unparen(e.Fun).(*ast.Ident); ok {
			if _, isB := h.n.useOf(id).(*types.Builtin); isB {
				for i := range e.Args {
					h.visit(&e.Args[i])
				}
				if !pureBuiltins[id.Name] {
					h.stop = true
				}
				return
			}
		}
		// candidate?
		why := h.n.expandable(e, h.st)
		if why == "" {
			// its receiver and arguments are evaluated into temps in call order by the expansion
			h.target = slot
			return
		}
		if debugNormalize && why != "not a static same-package call" {
			fmt.Fprintf(os.Stderr, "normalize: call of %s not expanded: %s\n", types.ExprString(e.Fun), why)
		}
		// an ordinary call: operands first, then the call itself is an effect
		if sel, ok := ast.Unparen(e.Fun).(*ast.SelectorExpr); ok {
			isPkg := false
			if id, ok := sel.X.(*ast.Ident); ok {
				_, isPkg = h.n.useOf(id).(*types.PkgName)
			}
			if !isPkg {
				h.visit(&sel.X)
			}
		} else if _, ok := ast.Unparen(e.Fun).(*ast.Ident); !ok {
			h.visit(&e.Fun)
		}
		for i := range e.Args {
			h.visit(&e.Args[i])
		}
		if !h.done() {
			h.stop = true
		}
	default:
		h.stop = true
	}
}

func containsCallOrRecv(e ast.Expr) bool {
	found := false
	ast.Inspect(e, func(x ast.Node) bool {
		switch y := x.(type) {
		case *ast.FuncLit:
			return false
		case *ast.CallExpr:
			found = true
		case *ast.UnaryExpr:
			if y.Op == token.ARROW {
				found = true
			}
		}
		return !found
	})
	return found
}

// ---- expansion -----------------------------------------------------------------------------------

type inlState struct {
	stack []*types.Func // helpers being expanded (outermost first)
	sites []token.Pos   // their call positions, plus the position in the top-level function
	top   *types.Func   // the top-level function being transformed (nil for package-level closures)
	// type parameters of the helpers being expanded -> the expressions they stand for at the paste point
	tsubst map[*types.TypeName]ast.Expr
	// result types of the function whose `return` statements appear at this level (nil: none may)
	ret *types.Tuple
	// parameters of the helpers being expanded that hold a compile-time constant here (normalize_fold.go)
	consts map[types.Object]constant.Value
}

func (st *inlState) push(f *types.Func, pos token.Pos) *inlState {
	ns := &inlState{stack: append(append([]*types.Func{}, st.stack...), f), sites: append(append([]token.Pos{}, st.sites...), pos), top: st.top, tsubst: map[*types.TypeName]ast.Expr{}, ret: st.ret, consts: map[types.Object]constant.Value{}}
	for k, v := range st.tsubst {
		ns.tsubst[k] = v
	}
	for k, v := range st.consts {
		ns.consts[k] = v
	}
	return ns
}

// expandable says whether this call can be expanded here ("" = yes).
func (n *normalizer) expandable(call *ast.CallExpr, st *inlState) string {
	cal := n.staticCallee(call)
	if cal == nil {
		return "not a static same-package call"
	}
	fd := n.decls[cal]
	if fd == nil {
		return "no declaration"
	}
	if why := n.elig[cal]; why != "" {
		return why
	}
	if len(st.stack) >= maxInlineDepth {
		return "depth"
	}
	if cal == st.top {
		return "self"
	}
	for _, f := range st.stack {
		if f == cal {
			return "cycle"
		}
	}
	if call.Ellipsis.IsValid() && !isVariadicDecl(fd) {
		return "spread"
	}
	sig := cal.Type().(*types.Signature)
	// method call: plain selection only (no promotion through embedded fields)
	if sig.Recv() != nil {
		sel, ok := ast.Unparen(call.Fun).(*ast.SelectorExpr)
		if !ok {
			return "method value call"
		}
		osel, _ := n.o(sel).(*ast.SelectorExpr)
		s := n.info.Selections[osel]
		if s == nil || s.Kind() != types.MethodVal || len(s.Index()) > 4 {
			return "promoted method"
		}
		// generic receiver: caller must use the same type-parameter names (checked when binding)
	} else if calleeIdent(call) == nil {
		return "qualified"
	}
	// argument count must match parameters (f(g()) spreading a tuple is not handled)
	np := sig.Params().Len()
	if sig.Variadic() {
		if len(call.Args) < np-1 {
			return "tuple argument"
		}
	} else if len(call.Args) != np {
		return "tuple argument"
	}
	return ""
}

// calleeIdent: the identifier naming a plain (possibly explicitly instantiated) function callee.
func calleeIdent(call *ast.CallExpr) *ast.Ident {
	switch f := ast.Unparen(call.Fun).(type) {
	case *ast.Ident:
		return f
	case *ast.IndexExpr:
		id, _ := f.X.(*ast.Ident)
		return id
	case *ast.IndexListExpr:
		id, _ := f.X.(*ast.Ident)
		return id
	}
	return nil
}

// typeArgExpr renders a type argument as an expression valid in the caller's file.
func (n *normalizer) typeArgExpr(ta types.Type, st *inlState, pos token.Pos) (ast.Expr, bool) {
	if tp, isTP := ta.(*types.TypeParam); isTP {
		if e, has := st.tsubst[tp.Obj()]; has {
			return n.clone(e).(ast.Expr), true
		}
	}
	okQ := true
	s := types.TypeString(ta, func(p *types.Package) string {
		if p == n.pkg.Types {
			return ""
		}
		for _, im := range n.curFile.Imports {
			if strings.Trim(im.Path.Value, `"`) == p.Path() {
				if im.Name != nil {
					if im.Name.Name == "." || im.Name.Name == "_" {
						okQ = false
					}
					return im.Name.Name
				}
				return p.Name()
			}
		}
		if prev, has := n.needImps[p.Name()]; has && prev != p.Path() {
			okQ = false
		}
		if n.pkg.Types.Scope().Lookup(p.Name()) != nil {
			okQ = false
		}
		n.needImps[p.Name()] = p.Path()
		return p.Name()
	})
	if !okQ {
		return nil, false
	}
	// a type parameter of an enclosing helper nested inside a composite type is not handled
	bad := false
	var walk func(t types.Type, depth int)
	walk = func(t types.Type, depth int) {
		if depth > 6 || bad {
			return
		}
		switch x := t.(type) {
		case *types.TypeParam:
			if depth > 0 {
				if _, has := st.tsubst[x.Obj()]; has {
					bad = true
				}
			}
		case *types.Pointer:
			walk(x.Elem(), depth+1)
		case *types.Slice:
			walk(x.Elem(), depth+1)
		case *types.Array:
			walk(x.Elem(), depth+1)
		case *types.Map:
			walk(x.Key(), depth+1)
			walk(x.Elem(), depth+1)
		case *types.Named:
			if x.TypeArgs() != nil {
				for i := 0; i < x.TypeArgs().Len(); i++ {
					walk(x.TypeArgs().At(i), depth+1)
				}
			}
		}
	}
	walk(ta, 0)
	if bad {
		return nil, false
	}
	ex, err := parser.ParseExpr(s)
	if err != nil {
		return nil, false
	}
	setPos(ex, pos)
	return ex, true
}

func isVariadicDecl(fd *ast.FuncDecl) bool {
	ps := fd.Type.Params.List
	if len(ps) == 0 {
		return false
	}
	_, ok := ps[len(ps)-1].Type.(*ast.Ellipsis)
	return ok
}

func ident(name string, pos token.Pos) *ast.Ident { return &ast.Ident{Name: name, NamePos: pos} }

// typeExprFor clones a type expression from the callee's signature, substituting the callee's
// receiver type parameters by the caller's type arguments (as expressions), and checks that every
// package-level / imported name means the same thing at the call site.
func (n *normalizer) typeExprFor(e ast.Expr, subst map[*types.TypeName]ast.Expr, st *inlState, callPos token.Pos) (ast.Expr, bool) {
	c := n.clone(e).(ast.Expr)
	ok := true
	c = n.substIdents(c, subst, st, callPos, &ok).(ast.Expr)
	return c, ok
}

// substIdents rewrites, inside a cloned subtree, uses of type parameters, and verifies free names.
func (n *normalizer) substIdents(root ast.Node, subst map[*types.TypeName]ast.Expr, st *inlState, callPos token.Pos, ok *bool) ast.Node {
	var rewrite func(x ast.Node) ast.Node
	replaceExpr := func(e ast.Expr) ast.Expr {
		if e == nil {
			return nil
		}
		return rewrite(e).(ast.Expr)
	}
	rewrite = func(x ast.Node) ast.Node {
		if id, isId := x.(*ast.Ident); isId {
			ob := n.useOf(id)
			if tn, isTN := ob.(*types.TypeName); isTN {
				if r, has := subst[tn]; has {
					return n.clone(r)
				}
			}
			n.checkFreeName(id, ob, st, callPos, ok)
			return x
		}
		// generic traversal over expression/statement children via reflection
		v := reflect.ValueOf(x)
		if v.Kind() != reflect.Ptr || v.IsNil() {
			return x
		}
		s := v.Elem()
		if s.Kind() != reflect.Struct {
			return x
		}
		if se, isSel := x.(*ast.SelectorExpr); isSel {
			// only the operand; the selected name is resolved through the operand's type
			se.X = replaceExpr(se.X)
			return x
		}
		if kv, isKV := x.(*ast.KeyValueExpr); isKV {
			if _, isField := kv.Key.(*ast.Ident); !isField {
				kv.Key = replaceExpr(kv.Key)
			} else if ob := n.useOf(kv.Key.(*ast.Ident)); ob != nil {
				if v, isVar := ob.(*types.Var); !isVar || !v.IsField() {
					kv.Key = replaceExpr(kv.Key)
				}
			}
			kv.Value = replaceExpr(kv.Value)
			return x
		}
		for i := 0; i < s.NumField(); i++ {
			f := s.Field(i)
			if !f.CanSet() {
				continue
			}
			switch f.Kind() {
			case reflect.Interface, reflect.Ptr:
				if f.IsNil() {
					continue
				}
				if nd, isNode := f.Interface().(ast.Node); isNode {
					r := rewrite(nd)
					if r != nd {
						f.Set(reflect.ValueOf(r))
					}
				}
			case reflect.Slice:
				for j := 0; j < f.Len(); j++ {
					el := f.Index(j)
					if (el.Kind() == reflect.Interface || el.Kind() == reflect.Ptr) && !el.IsNil() {
						if nd, isNode := el.Interface().(ast.Node); isNode {
							r := rewrite(nd)
							if r != nd {
								el.Set(reflect.ValueOf(r))
							}
						}
					}
				}
			}
		}
		return x
	}
	return rewrite(root)
}

// checkFreeName: an identifier of the helper that denotes a package-level object, a universe object
// or an imported package must denote the same thing where it is pasted.
func (n *normalizer) checkFreeName(id *ast.Ident, ob types.Object, st *inlState, callPos token.Pos, ok *bool) {
	if ob == nil || id.Name == "_" {
		return
	}
	var wantPath string
	switch o := ob.(type) {
	case *types.PkgName:
		wantPath = o.Imported().Path()
	default:
		if ob.Parent() != n.pkg.Types.Scope() && ob.Parent() != types.Universe {
			return // local to the helper (or a field/method)
		}
	}
	for _, pos := range append(append([]token.Pos{}, st.sites...), callPos) {
		sc := n.pkg.Types.Scope().Innermost(pos)
		if sc == nil {
			continue
		}
		_, got := sc.LookupParent(id.Name, pos)
		if wantPath != "" {
			if pn, isPkg := got.(*types.PkgName); isPkg && pn.Imported().Path() == wantPath {
				continue
			}
			if got == nil {
				// not imported in the caller's file: add the import
				if prev, has := n.needImps[id.Name]; has && prev != wantPath {
					*ok = false
				}
				// the name must also be free at package level
				if n.pkg.Types.Scope().Lookup(id.Name) != nil {
					*ok = false
				}
				n.needImps[id.Name] = wantPath
				continue
			}
			*ok = false
			continue
		}
		if got != ob {
			*ok = false
		}
	}
}

// expand produces the statements that replace one call, and the expressions standing for its results.
func (n *normalizer) expand(call *ast.CallExpr, st *inlState) (prefix []ast.Stmt, results []ast.Expr, ok bool) {
	return n.expandMode(call, st, false)
}

// tailOK: `return h(...)` can be expanded with the helper's own return statements kept as they are
// when the helper's result types are exactly the enclosing function's.
func (n *normalizer) tailOK(call *ast.CallExpr, st *inlState) bool {
	cal := n.staticCallee(call)
	if cal == nil || st.ret == nil {
		return false
	}
	rs := cal.Type().(*types.Signature).Results()
	if rs.Len() == 0 || rs.Len() != st.ret.Len() {
		return false
	}
	for i := 0; i < rs.Len(); i++ {
		if !types.Identical(rs.At(i).Type(), st.ret.At(i).Type()) {
			return false
		}
	}
	return true
}

func (n *normalizer) expandMode(call *ast.CallExpr, st *inlState, tail bool) (prefix []ast.Stmt, results []ast.Expr, ok bool) {
	cal := n.staticCallee(call)
	fd := n.decls[cal]
	sig := cal.Type().(*types.Signature)
	n.seq++
	tag := fmt.Sprintf("__%s%d", cal.Name(), n.seq)
	pos := call.Pos()
	ok = true
	savedImps := map[string]string{}
	for k, v := range n.needImps {
		savedImps[k] = v
	}
	fail := func() ([]ast.Stmt, []ast.Expr, bool) {
		n.needImps = savedImps
		return nil, nil, false
	}

	// type-parameter substitution for methods of generic types
	subst := map[*types.TypeName]ast.Expr{}
	var recvExpr ast.Expr
	if sig.Recv() != nil {
		sel := ast.Unparen(call.Fun).(*ast.SelectorExpr)
		recvExpr = sel.X
		if rtp := sig.RecvTypeParams(); rtp != nil && rtp.Len() > 0 {
			xt := n.typeOf(sel.X)
			if p, isPtr := xt.(*types.Pointer); isPtr {
				xt = p.Elem()
			}
			nm, isNamed := types.Unalias(xt).(*types.Named)
			if !isNamed || nm.TypeArgs() == nil || nm.TypeArgs().Len() != rtp.Len() {
				return fail()
			}
			for i := 0; i < rtp.Len(); i++ {
				ex, okT := n.typeArgExpr(nm.TypeArgs().At(i), st, pos)
				if !okT {
					return fail()
				}
				subst[rtp.At(i).Obj()] = ex
			}
		}
	}

	if tps := sig.TypeParams(); tps != nil && tps.Len() > 0 {
		id := calleeIdent(call)
		oid, _ := n.o(id).(*ast.Ident)
		inst, has := n.info.Instances[oid]
		if !has || inst.TypeArgs == nil || inst.TypeArgs.Len() != tps.Len() {
			return fail()
		}
		for i := 0; i < tps.Len(); i++ {
			ex, okT := n.typeArgExpr(inst.TypeArgs.At(i), st, pos)
			if !okT {
				return fail()
			}
			subst[tps.At(i).Obj()] = ex
		}
	}

	decl := func(name string, typ ast.Expr, val ast.Expr) ast.Stmt {
		vs := &ast.ValueSpec{Names: []*ast.Ident{ident(name, pos)}, Type: typ}
		if val != nil {
			vs.Values = []ast.Expr{val}
		}
		return &ast.DeclStmt{Decl: &ast.GenDecl{Tok: token.VAR, TokPos: pos, Specs: []ast.Spec{vs}}}
	}

	var bindL, bindR []ast.Expr
	var keep []ast.Stmt // `_ = p` for every bound name
	// receiver
	if fd.Recv != nil && len(fd.Recv.List) == 1 {
		rf := fd.Recv.List[0]
		rt, tok := n.typeExprFor(rf.Type, subst, st, pos)
		if !tok {
			return fail()
		}
		// implicit & or * on the receiver operand
		osel := n.o(ast.Unparen(call.Fun)).(*ast.SelectorExpr)
		s := n.info.Selections[osel]
		_, wantPtr := sig.Recv().Type().(*types.Pointer)
		_, havePtr := s.Recv().(*types.Pointer)
		// a promoted method: the embedded fields on the way to it are spelled out (node.m() is node.base.m())
		if idx := s.Index(); len(idx) > 1 {
			t := s.Recv()
			for _, fi := range idx[:len(idx)-1] {
				if pt, isP := t.Underlying().(*types.Pointer); isP {
					t = pt.Elem()
				}
				stt, isSt := t.Underlying().(*types.Struct)
				if !isSt || fi >= stt.NumFields() {
					return fail()
				}
				f := stt.Field(fi)
				if f.Pkg() != nil && f.Pkg() != n.pkg.Types && !f.Exported() {
					return fail()
				}
				recvExpr = &ast.SelectorExpr{X: recvExpr, Sel: ident(f.Name(), pos)}
				t = f.Type()
			}
			_, havePtr = t.Underlying().(*types.Pointer)
		}
		rx := recvExpr
		switch {
		case wantPtr && !havePtr:
			rx = &ast.UnaryExpr{Op: token.AND, OpPos: pos, X: recvExpr}
		case !wantPtr && havePtr:
			rx = &ast.StarExpr{Star: pos, X: recvExpr}
		}
		tmp := tag + "_recv"
		prefix = append(prefix, decl(tmp, rt, rx))
		if len(rf.Names) == 1 && rf.Names[0].Name != "_" {
			bindL = append(bindL, ident(rf.Names[0].Name, rf.Names[0].Pos()))
			bindR = append(bindR, ident(tmp, rf.Names[0].Pos()))
			keep = append(keep, blankAssign(ident(rf.Names[0].Name, rf.Names[0].Pos())))
		} else {
			prefix = append(prefix, blankAssign(ident(tmp, pos)))
		}
	}
	// parameters
	type litParam struct {
		pv  types.Object
		lit *ast.FuncLit
	}
	var litParams []litParam
	constParams := map[types.Object]constant.Value{}
	argFolder := &constFolder{n: n, consts: st.consts}
	ai := 0
	pi := 0
	for _, f := range fd.Type.Params.List {
		names := f.Names
		if len(names) == 0 {
			names = []*ast.Ident{nil}
		}
		for _, nm := range names {
			var pt ast.Expr
			var val ast.Expr
			if ell, isEll := f.Type.(*ast.Ellipsis); isEll {
				et, tok := n.typeExprFor(ell.Elt, subst, st, pos)
				if !tok {
					return fail()
				}
				pt = &ast.ArrayType{Lbrack: pos, Elt: et}
				if call.Ellipsis.IsValid() {
					val = call.Args[ai]
					ai++
				} else {
					rest := call.Args[ai:]
					ai = len(call.Args)
					if len(rest) > 0 {
						et2, _ := n.typeExprFor(ell.Elt, subst, st, pos)
						val = &ast.CompositeLit{Type: &ast.ArrayType{Lbrack: pos, Elt: et2}, Lbrace: pos, Elts: append([]ast.Expr{}, rest...), Rbrace: pos}
					}
				}
			} else {
				t, tok := n.typeExprFor(f.Type, subst, st, pos)
				if !tok {
					return fail()
				}
				pt = t
				if ai >= len(call.Args) {
					return fail()
				}
				val = call.Args[ai]
				ai++
			}
			tmp := fmt.Sprintf("%s_p%d", tag, pi)
			pi++
			prefix = append(prefix, decl(tmp, pt, val))
			if nm != nil && nm.Name != "_" && val != nil {
				if _, isEll := f.Type.(*ast.Ellipsis); !isEll {
					if cv, isConst := argFolder.val(val); isConst {
						if pv := n.info.Defs[nm]; pv != nil && n.paramNeverWritten(fd, pv) {
							constParams[pv] = cv
						}
					}
				}
			}
			if lit, isLit := ast.Unparen(val).(*ast.FuncLit); isLit && nm != nil && nm.Name != "_" {
				if pv := n.info.Defs[nm]; pv != nil && n.litParamUsable(fd, pv) {
					litParams = append(litParams, litParam{pv, lit})
				}
			} else if sel, isSel := ast.Unparen(val).(*ast.SelectorExpr); isSel && nm != nil && nm.Name != "_" {
				// a method value handed in (collection.link): the receiver is evaluated here, once; every call of
				// the parameter becomes a direct call of the method on it
				if pv := n.info.Defs[nm]; pv != nil && n.litParamUsable(fd, pv) {
					if lit, recvDecl, okMV := n.methodValueLiteral(sel, fmt.Sprintf("%s_mv%d", tag, pi), st, pos); okMV {
						prefix = append(prefix, recvDecl...)
						litParams = append(litParams, litParam{pv, lit})
					}
				}
			}
			if nm != nil && nm.Name != "_" {
				bindL = append(bindL, ident(nm.Name, nm.Pos()))
				bindR = append(bindR, ident(tmp, nm.Pos()))
				keep = append(keep, blankAssign(ident(nm.Name, nm.Pos())))
			} else {
				prefix = append(prefix, blankAssign(ident(tmp, pos)))
			}
		}
	}
	// results
	var resNames []string
	var namedRes []*ast.Ident
	var body []ast.Stmt
	if fd.Type.Results != nil {
		ri := 0
		for _, f := range fd.Type.Results.List {
			names := f.Names
			if len(names) == 0 {
				names = []*ast.Ident{nil}
			}
			for _, nm := range names {
				rt, tok := n.typeExprFor(f.Type, subst, st, pos)
				if !tok {
					return fail()
				}
				rn := fmt.Sprintf("%s_r%d", tag, ri)
				ri++
				if !tail {
					prefix = append(prefix, decl(rn, rt, nil))
					prefix = append(prefix, blankAssign(ident(rn, pos)))
					resNames = append(resNames, rn)
					results = append(results, ident(rn, pos))
				}
				if nm != nil {
					namedRes = append(namedRes, nm)
					if nm.Name != "_" {
						rt2, _ := n.typeExprFor(f.Type, subst, st, pos)
						vs := &ast.ValueSpec{Names: []*ast.Ident{ident(nm.Name, nm.Pos())}, Type: rt2}
						body = append(body, &ast.DeclStmt{Decl: &ast.GenDecl{Tok: token.VAR, TokPos: nm.Pos(), Specs: []ast.Spec{vs}}})
						body = append(body, blankAssign(ident(nm.Name, nm.Pos())))
					}
				}
			}
		}
	}
	// body
	inner := st.push(cal, pos)
	for k, v := range subst {
		inner.tsubst[k] = v
	}
	cb := n.clone(fd.Body).(*ast.BlockStmt)
	n.propagateMethodValues(cb)
	// function literals handed in and only ever called: their bodies replace the calls (normalize_lit.go)
	if len(litParams) > 0 {
		declared := n.declaredNames(fd)
		for _, lp := range litParams {
			clash := false
			var clashing []string
			for name := range n.freeNames(lp.lit) {
				if declared[name] {
					clash = true
					clashing = append(clashing, name)
				}
			}
			if clash {
				// the literal and the helper use the same name for different things (a receiver called `bucket`
				// on both sides): the helper's own variables of that name are renamed in the pasted copy
				renamed := map[string]string{}
				okRename := true
				for _, name := range clashing {
					for _, nr := range namedResOf(fd) {
						if nr == name {
							okRename = false
						}
					}
					renamed[name] = fmt.Sprintf("%s__%s", name, tag)
				}
				if !okRename || !n.renameHelperVars(cb, fd, renamed) {
					continue
				}
				for _, l := range bindL {
					if id, isId := l.(*ast.Ident); isId {
						if nn, has := renamed[id.Name]; has {
							id.Name = nn
						}
					}
				}
				for _, ks := range keep {
					if as, isAs := ks.(*ast.AssignStmt); isAs && len(as.Rhs) == 1 {
						if id, isId := as.Rhs[0].(*ast.Ident); isId {
							if nn, has := renamed[id.Name]; has {
								id.Name = nn
							}
						}
					}
				}
			}
			savedStats := n.stats.Expanded
			if !n.inlineLitCalls(cb, lp.pv, lp.lit) {
				// a call stands where it cannot be rewritten: start again from a fresh copy, without this literal
				n.stats.Expanded = savedStats
				cb = n.clone(fd.Body).(*ast.BlockStmt)
				n.propagateMethodValues(cb)
				break
			}
		}
	}
	// branches decided by constant arguments (normalize_fold.go)
	for k, v := range constParams {
		inner.consts[k] = v
	}
	if len(inner.consts) > 0 && os.Getenv("STORAGECHECK_NOFOLD") == "" {
		if n.foldConstParams(cb, inner.consts) > 0 && n.foldLeftUnused(cb) {
			// an arm that was dropped held the only use of a local: leave this body as it is
			cb = n.clone(fd.Body).(*ast.BlockStmt)
			n.propagateMethodValues(cb)
		}
	}
	okBody := true
	n.substIdents(cb, subst, st, pos, &okBody)
	if !okBody {
		return fail()
	}
	label := tag
	usedLabel := false
	if tail {
		inner.ret = st.ret
		n.rewriteBareReturns(cb, namedRes)
	} else {
		inner.ret = nil
		n.rewriteReturns(cb, resNames, namedRes, label, &usedLabel)
	}
	n.renameLabels(cb, tag)
	// expand nested helper calls inside the pasted body
	cb.List = n.stmts(cb.List, inner)
	var blk []ast.Stmt
	if len(bindL) > 0 {
		blk = append(blk, &ast.AssignStmt{Lhs: bindL, TokPos: fd.Body.Lbrace, Tok: token.DEFINE, Rhs: bindR})
		blk = append(blk, keep...)
	}
	blk = append(blk, body...)
	blk = append(blk, cb.List...)
	if tail {
		prefix = append(prefix, &ast.BlockStmt{Lbrace: pos, Rbrace: pos, List: blk})
		n.stats.Expanded++
		n.stats.Helpers[cal.FullName()]++
		return prefix, nil, true
	}
	sw := &ast.SwitchStmt{Switch: pos, Body: &ast.BlockStmt{Lbrace: pos, Rbrace: pos, List: []ast.Stmt{&ast.CaseClause{Case: pos, Colon: pos, Body: blk}}}}
	if usedLabel {
		prefix = append(prefix, &ast.LabeledStmt{Label: ident(label, pos), Colon: pos, Stmt: sw})
	} else {
		prefix = append(prefix, sw)
	}
	n.stats.Expanded++
	n.stats.Helpers[cal.FullName()]++
	return prefix, results, true
}

func blankAssign(x ast.Expr) ast.Stmt {
	return &ast.AssignStmt{Lhs: []ast.Expr{ident("_", x.Pos())}, TokPos: x.Pos(), Tok: token.ASSIGN, Rhs: []ast.Expr{x}}
}

// setPos gives every position inside a synthesised (parsed from a string) expression the position of the
// place it is pasted at: the type checker looks positions up in the package's files (language version
// checks), and the small positions a free-standing parse produces belong to some other file of the set.
func setPos(e ast.Expr, pos token.Pos) {
	posType := reflect.TypeOf(token.NoPos)
	ast.Inspect(e, func(x ast.Node) bool {
		if x == nil {
			return true
		}
		v := reflect.ValueOf(x)
		if v.Kind() == reflect.Ptr && !v.IsNil() && v.Elem().Kind() == reflect.Struct {
			sv := v.Elem()
			for i := 0; i < sv.NumField(); i++ {
				f := sv.Field(i)
				if f.Type() == posType && f.CanSet() && f.Int() != 0 {
					f.SetInt(int64(pos))
				}
			}
		}
		return true
	})
}

// rewriteReturns replaces, outside nested function literals, `return e...` by an assignment to the
// result temps followed by `break label`.
func (n *normalizer) rewriteReturns(b *ast.BlockStmt, res []string, named []*ast.Ident, label string, used *bool) {
	var rwList func(list []ast.Stmt) []ast.Stmt
	var rwStmt func(s ast.Stmt) ast.Stmt
	rwStmt = func(s ast.Stmt) ast.Stmt {
		switch x := s.(type) {
		case *ast.ReturnStmt:
			*used = true
			brk := &ast.BranchStmt{TokPos: x.Pos(), Tok: token.BREAK, Label: ident(label, x.Pos())}
			if len(res) == 0 {
				return brk
			}
			var lhs []ast.Expr
			for _, r := range res {
				lhs = append(lhs, ident(r, x.Pos()))
			}
			rhs := x.Results
			if len(rhs) == 0 { // bare return with named results
				for _, nm := range named {
					rhs = append(rhs, ident(nm.Name, x.Pos()))
				}
			}
			as := &ast.AssignStmt{Lhs: lhs, TokPos: x.Pos(), Tok: token.ASSIGN, Rhs: rhs}
			return &ast.BlockStmt{Lbrace: x.Pos(), Rbrace: x.Pos(), List: []ast.Stmt{as, brk}}
		case *ast.BlockStmt:
			x.List = rwList(x.List)
		case *ast.IfStmt:
			x.Body.List = rwList(x.Body.List)
			if x.Else != nil {
				x.Else = rwStmt(x.Else)
			}
		case *ast.ForStmt:
			x.Body.List = rwList(x.Body.List)
		case *ast.RangeStmt:
			x.Body.List = rwList(x.Body.List)
		case *ast.SwitchStmt:
			x.Body.List = rwList(x.Body.List)
		case *ast.TypeSwitchStmt:
			x.Body.List = rwList(x.Body.List)
		case *ast.SelectStmt:
			x.Body.List = rwList(x.Body.List)
		case *ast.CaseClause:
			x.Body = rwList(x.Body)
		case *ast.CommClause:
			x.Body = rwList(x.Body)
		case *ast.LabeledStmt:
			x.Stmt = rwStmt(x.Stmt)
		}
		return s
	}
	rwList = func(list []ast.Stmt) []ast.Stmt {
		for i, s := range list {
			list[i] = rwStmt(s)
		}
		return list
	}
	b.List = rwList(b.List)
}

// rewriteBareReturns (tail mode): `return` with named results becomes `return n1, n2`.
func (n *normalizer) rewriteBareReturns(b *ast.BlockStmt, named []*ast.Ident) {
	if len(named) == 0 {
		return
	}
	ast.Inspect(b, func(x ast.Node) bool {
		switch y := x.(type) {
		case *ast.FuncLit:
			return false
		case *ast.ReturnStmt:
			if len(y.Results) == 0 {
				for _, nm := range named {
					y.Results = append(y.Results, ident(nm.Name, y.Pos()))
				}
			}
		}
		return true
	})
}

// renameLabels gives the helper's own labels a per-expansion suffix (labels are function-scoped).
func (n *normalizer) renameLabels(b *ast.BlockStmt, tag string) {
	own := map[string]bool{}
	ast.Inspect(b, func(x ast.Node) bool {
		if _, isLit := x.(*ast.FuncLit); isLit {
			return false
		}
		if l, ok := x.(*ast.LabeledStmt); ok && !strings.HasPrefix(l.Label.Name, "__") {
			own[l.Label.Name] = true
		}
		return true
	})
	if len(own) == 0 {
		return
	}
	ast.Inspect(b, func(x ast.Node) bool {
		switch y := x.(type) {
		case *ast.FuncLit:
			return false
		case *ast.LabeledStmt:
			if own[y.Label.Name] {
				y.Label.Name = y.Label.Name + tag
			}
		case *ast.BranchStmt:
			if y.Label != nil && own[y.Label.Name] {
				y.Label.Name = y.Label.Name + tag
			}
		}
		return true
	})
}

// ---- statement walk ------------------------------------------------------------------------------

// stmts transforms a statement list: nested blocks first, then calls of the statement itself.
func (n *normalizer) stmts(list []ast.Stmt, st *inlState) []ast.Stmt {
	var out []ast.Stmt
	for _, s := range list {
		out = append(out, n.stmt(s, st, true)...)
	}
	return out
}

func (n *normalizer) block(b *ast.BlockStmt, st *inlState) {
	if b != nil {
		b.List = n.stmts(b.List, st)
	}
}

// funcLits transforms the bodies of function literals occurring in the statement's own expressions.
func (n *normalizer) funcLits(node ast.Node, st *inlState) {
	ast.Inspect(node, func(x ast.Node) bool {
		switch y := x.(type) {
		case *ast.BlockStmt:
			return false // nested statement blocks are handled by the statement walk
		case *ast.FuncLit:
			ls := *st
			ls.ret = nil
			if sig, ok := n.typeOf(y).(*types.Signature); ok {
				ls.ret = sig.Results()
			}
			n.block(y.Body, &ls)
			return false
		}
		return true
	})
}

// stmt returns the statements that replace s. mayHoist is false where prefix statements cannot be
// placed directly before s (labeled statements).
func (n *normalizer) stmt(s ast.Stmt, st *inlState, mayHoist bool) []ast.Stmt {
	// 1. nested statements and closures
	switch x := s.(type) {
	case *ast.BlockStmt:
		n.block(x, st)
		return []ast.Stmt{s}
	case *ast.LabeledStmt:
		r := n.stmt(x.Stmt, st, false)
		if len(r) == 1 {
			x.Stmt = r[0]
		}
		return []ast.Stmt{s}
	case *ast.IfStmt:
		n.block(x.Body, st)
		if x.Else != nil {
			r := n.stmt(x.Else, st, true)
			if len(r) == 1 {
				x.Else = r[0]
			} else {
				x.Else = &ast.BlockStmt{Lbrace: x.Else.Pos(), Rbrace: x.Else.End(), List: r}
			}
		}
	case *ast.ForStmt:
		n.block(x.Body, st)
	case *ast.RangeStmt:
		n.block(x.Body, st)
	case *ast.SwitchStmt:
		for _, c := range x.Body.List {
			cc := c.(*ast.CaseClause)
			cc.Body = n.stmts(cc.Body, st)
		}
	case *ast.TypeSwitchStmt:
		for _, c := range x.Body.List {
			cc := c.(*ast.CaseClause)
			cc.Body = n.stmts(cc.Body, st)
		}
	case *ast.SelectStmt:
		for _, c := range x.Body.List {
			cc := c.(*ast.CommClause)
			cc.Body = n.stmts(cc.Body, st)
		}
	}
	if d, isDefer := s.(*ast.DeferStmt); isDefer && mayHoist {
		if pre, ok := n.deferThrough(d, st); ok {
			return pre
		}
	}
	n.funcLitsOfStmt(s, st)
	if !mayHoist {
		return []ast.Stmt{s}
	}
	return n.hoistAll(s, st)
}

// hoistAll expands the calls in the statement's own expressions, in evaluation order.
func (n *normalizer) hoistAll(s ast.Stmt, st *inlState) []ast.Stmt {
	var out []ast.Stmt
	for iter := 0; iter < 8; iter++ {
		pre, ns, changed := n.hoistOne(s, st)
		if !changed {
			break
		}
		// the arguments of the expanded call now stand in declarations of their own: calls among them are
		// expanded in turn (f(g(x)): g after f)
		for _, ps := range pre {
			if ds, isDecl := ps.(*ast.DeclStmt); isDecl && iter < 4 {
				out = append(out, n.hoistAll(ds, st)...)
			} else {
				out = append(out, ps)
			}
		}
		s = ns
		if s == nil {
			return out
		}
	}
	return append(out, s)
}

func (n *normalizer) funcLitsOfStmt(s ast.Stmt, st *inlState) {
	visitE := func(e ast.Expr) {
		if e != nil {
			n.funcLits(e, st)
		}
	}
	switch x := s.(type) {
	case *ast.ExprStmt:
		visitE(x.X)
	case *ast.AssignStmt:
		for _, e := range x.Lhs {
			visitE(e)
		}
		for _, e := range x.Rhs {
			visitE(e)
		}
	case *ast.DeclStmt:
		n.funcLits(x.Decl, st)
	case *ast.ReturnStmt:
		for _, e := range x.Results {
			visitE(e)
		}
	case *ast.GoStmt:
		visitE(x.Call)
	case *ast.DeferStmt:
		visitE(x.Call)
	case *ast.SendStmt:
		visitE(x.Chan)
		visitE(x.Value)
	case *ast.IncDecStmt:
		visitE(x.X)
	case *ast.IfStmt:
		if x.Init != nil {
			n.funcLitsOfStmt(x.Init, st)
		}
		visitE(x.Cond)
	case *ast.ForStmt:
		if x.Init != nil {
			n.funcLitsOfStmt(x.Init, st)
		}
		visitE(x.Cond)
		if x.Post != nil {
			n.funcLitsOfStmt(x.Post, st)
		}
	case *ast.RangeStmt:
		visitE(x.X)
	case *ast.SwitchStmt:
		if x.Init != nil {
			n.funcLitsOfStmt(x.Init, st)
		}
		visitE(x.Tag)
		for _, c := range x.Body.List {
			for _, e := range c.(*ast.CaseClause).List {
				visitE(e)
			}
		}
	case *ast.TypeSwitchStmt:
		if x.Init != nil {
			n.funcLitsOfStmt(x.Init, st)
		}
		n.funcLitsOfStmt(x.Assign, st)
	}
}

// hoistOne expands the first expandable call among the statement's own expressions.
func (n *normalizer) hoistOne(s ast.Stmt, st *inlState) (prefix []ast.Stmt, ns ast.Stmt, changed bool) {
	h := &hoistScan{n: n, st: st}
	// whole-statement forms with tuple results first
	tupleCall := func(e ast.Expr) *ast.CallExpr {
		call, ok := ast.Unparen(e).(*ast.CallExpr)
		if !ok || n.expandable(call, st) != "" {
			return nil
		}
		return call
	}
	lhsPure := func(lhs []ast.Expr) bool {
		for _, l := range lhs {
			hs := &hoistScan{n: n, st: st}
			ll := l
			hs.visit(&ll)
			if hs.stop || hs.target != nil {
				return false
			}
		}
		return true
	}
	switch x := s.(type) {
	case *ast.ExprStmt:
		if call := tupleCall(x.X); call != nil {
			pre, _, ok := n.expand(call, st)
			if ok {
				return pre, nil, true
			}
			return nil, s, false
		}
		h.visit(&x.X)
	case *ast.AssignStmt:
		if len(x.Rhs) == 1 && len(x.Lhs) >= 1 {
			if call := tupleCall(x.Rhs[0]); call != nil && (x.Tok == token.DEFINE || lhsPure(x.Lhs)) {
				cal := n.staticCallee(call)
				if cal.Type().(*types.Signature).Results().Len() == len(x.Lhs) {
					pre, res, ok := n.expand(call, st)
					if ok {
						x.Rhs = res
						return pre, s, true
					}
					return nil, s, false
				}
			}
		}
		if x.Tok != token.DEFINE {
			for i := range x.Lhs {
				if _, isId := x.Lhs[i].(*ast.Ident); !isId {
					h.visit(&x.Lhs[i])
				}
			}
		}
		for i := range x.Rhs {
			h.visit(&x.Rhs[i])
		}
	case *ast.DeclStmt:
		gd, ok := x.Decl.(*ast.GenDecl)
		if !ok || gd.Tok != token.VAR {
			return nil, s, false
		}
		for _, sp := range gd.Specs {
			vs := sp.(*ast.ValueSpec)
			if len(vs.Values) == 1 && len(vs.Names) > 1 {
				if call := tupleCall(vs.Values[0]); call != nil && len(gd.Specs) == 1 {
					pre, res, ok := n.expand(call, st)
					if ok {
						vs.Values = res
						return pre, s, true
					}
				}
				return nil, s, false
			}
			for i := range vs.Values {
				h.visit(&vs.Values[i])
			}
		}
	case *ast.ReturnStmt:
		if len(x.Results) == 1 {
			if call := tupleCall(x.Results[0]); call != nil {
				if n.tailOK(call, st) {
					if pre, _, ok := n.expandMode(call, st, true); ok {
						return pre, nil, true
					}
				}
				pre, res, ok := n.expand(call, st)
				if ok {
					x.Results = res
					return pre, s, true
				}
				return nil, s, false
			}
		}
		for i := range x.Results {
			h.visit(&x.Results[i])
		}
	case *ast.IncDecStmt:
		h.visit(&x.X)
	case *ast.SendStmt:
		h.visit(&x.Chan)
		h.visit(&x.Value)
	case *ast.GoStmt:
		n.visitCallOperands(h, x.Call)
	case *ast.DeferStmt:
		n.visitCallOperands(h, x.Call)
	case *ast.RangeStmt:
		h.visit(&x.X)
	case *ast.IfStmt:
		if x.Init != nil {
			pre, ni, ch := n.hoistOne(x.Init, st)
			if ch {
				x.Init = ni
				return pre, s, true
			}
			// the init statement runs before the condition: move it out so that the condition's
			// calls can be expanded after it
			if hc := (&hoistScan{n: n, st: st}); true {
				c := x.Cond
				hc.visit(&c)
				if hc.target != nil {
					init := x.Init
					x.Init = nil
					blk := &ast.BlockStmt{Lbrace: s.Pos(), Rbrace: s.End(), List: append([]ast.Stmt{init}, n.hoistAll(s, st)...)}
					return nil, blk, true
				}
			}
			return nil, s, false
		}
		h.visit(&x.Cond)
	case *ast.SwitchStmt:
		if x.Init != nil {
			pre, ni, ch := n.hoistOne(x.Init, st)
			if ch {
				x.Init = ni
				return pre, s, true
			}
			return nil, s, false
		}
		if x.Tag != nil {
			h.visit(&x.Tag)
		}
	case *ast.TypeSwitchStmt:
		if x.Init != nil {
			return nil, s, false
		}
		switch a := x.Assign.(type) {
		case *ast.ExprStmt:
			if ta, ok := a.X.(*ast.TypeAssertExpr); ok {
				h.visit(&ta.X)
			}
		case *ast.AssignStmt:
			if ta, ok := a.Rhs[0].(*ast.TypeAssertExpr); ok {
				h.visit(&ta.X)
			}
		}
	case *ast.ForStmt:
		if x.Init != nil {
			pre, ni, ch := n.hoistOne(x.Init, st)
			if ch && ni != nil {
				x.Init = ni
				return pre, s, true
			}
		}
		return nil, s, false
	default:
		return nil, s, false
	}
	if h.target == nil {
		return nil, s, false
	}
	slot := h.target
	call := (*slot).(*ast.CallExpr)
	cal := n.staticCallee(call)
	if cal.Type().(*types.Signature).Results().Len() != 1 {
		return nil, s, false
	}
	pre, res, ok := n.expand(call, st)
	if !ok {
		return nil, s, false
	}
	*slot = res[0]
	return pre, s, true
}

func (n *normalizer) visitCallOperands(h *hoistScan, call *ast.CallExpr) {
	if sel, ok := ast.Unparen(call.Fun).(*ast.SelectorExpr); ok {
		h.visit(&sel.X)
	}
	for i := range call.Args {
		h.visit(&call.Args[i])
	}
}

// ---- driver --------------------------------------------------------------------------------------

// normalizePackages rewrites the module's packages in dependency order and type-checks them again.
func normalizePackages(all []*packages.Package, fset *token.FileSet, gen func(token.Pos) bool) (*normStats, error) {
	return transformPackages(all, fset, gen, true)
}

// retypecheckPackages type-checks the (edited) syntax trees again without expanding anything.
func retypecheckPackages(all []*packages.Package, fset *token.FileSet, gen func(token.Pos) bool) error {
	_, err := transformPackages(all, fset, gen, false)
	return err
}

func transformPackages(all []*packages.Package, fset *token.FileSet, gen func(token.Pos) bool, expand bool) (*normStats, error) {
	stats := &normStats{Helpers: map[string]int{}, SkippedWhy: map[string]int{}, Dead: map[string]bool{}}
	// dependency order among the module's packages
	inMod := map[string]*packages.Package{}
	for _, p := range all {
		inMod[p.PkgPath] = p
	}
	var order []*packages.Package
	done := map[*packages.Package]bool{}
	var visit func(p *packages.Package)
	visit = func(p *packages.Package) {
		if done[p] {
			return
		}
		done[p] = true
		var paths []string
		for path := range p.Imports {
			paths = append(paths, path)
		}
		sort.Strings(paths)
		for _, path := range paths {
			if q := inMod[path]; q != nil {
				visit(q)
			}
		}
		order = append(order, p)
	}
	sorted := append([]*packages.Package{}, all...)
	sort.Slice(sorted, func(i, j int) bool { return sorted[i].PkgPath < sorted[j].PkgPath })
	for _, p := range sorted {
		visit(p)
	}
	for _, p := range order {
		if err := normalizeOne(p, fset, gen, stats, expand); err != nil {
			return stats, err
		}
	}
	return stats, nil
}

type mapImporter map[string]*types.Package

func (m mapImporter) Import(path string) (*types.Package, error) {
	if p := m[path]; p != nil {
		return p, nil
	}
	return nil, fmt.Errorf("package %s not loaded", path)
}

func normalizeOne(p *packages.Package, fset *token.FileSet, gen func(token.Pos) bool, stats *normStats, expand bool) error {
	n := &normalizer{fset: fset, pkg: p, info: p.TypesInfo, decls: map[*types.Func]*ast.FuncDecl{}, file: map[*ast.FuncDecl]*ast.File{},
		elig: map[*types.Func]string{}, rec: map[*types.Func]bool{}, orig: map[ast.Node]ast.Node{}, mvRecvType: map[*ast.Ident]ast.Expr{}, stats: stats, gen: gen}
	for _, f := range p.Syntax {
		for _, d := range f.Decls {
			if fd, ok := d.(*ast.FuncDecl); ok {
				if obj, ok := p.TypesInfo.Defs[fd.Name].(*types.Func); ok {
					n.decls[obj] = fd
					n.file[fd] = f
				}
			}
		}
	}
	n.computeEligibility()
	for _, why := range n.elig {
		if why != "" {
			stats.SkippedWhy[why]++
		}
	}
	// transform every function of every non-generated file into a copy
	type change struct {
		file *ast.File
		idx  int
		old  ast.Decl
		new  *ast.FuncDecl
		imps map[string]string
	}
	var changes []change
	newFiles := make([]*ast.File, len(p.Syntax))
	for fi, f := range p.Syntax {
		nf := *f
		nf.Decls = append([]ast.Decl{}, f.Decls...)
		nf.Imports = append([]*ast.ImportSpec{}, f.Imports...)
		nf.Comments = nil
		nf.Scope = nil
		nf.Unresolved = nil
		newFiles[fi] = &nf
		if !expand || gen(f.Pos()) || strings.HasSuffix(fset.Position(f.Pos()).Filename, "_test.go") {
			continue
		}
		for di, d := range f.Decls {
			switch fd := d.(type) {
			case *ast.FuncDecl:
				if fd.Body == nil {
					continue
				}
				obj, _ := p.TypesInfo.Defs[fd.Name].(*types.Func)
				before := stats.Expanded
				n.curFile = f
				n.needImps = map[string]string{}
				nb := n.clone(fd.Body).(*ast.BlockStmt)
				beforeMV := stats.MethodValues
				n.propagateMethodValues(nb)
				nb = n.inlineLocalLiterals(nb)
				st := &inlState{top: obj, sites: nil}
				if obj != nil {
					st.ret = obj.Type().(*types.Signature).Results()
				}
				n.block(nb, st)
				if stats.Expanded == before && stats.MethodValues == beforeMV {
					continue
				}
				nfd := *fd
				nfd.Body = nb
				nfd.Doc = nil
				changes = append(changes, change{&nf, di, d, &nfd, n.needImps})
				nf.Decls[di] = &nfd
			case *ast.GenDecl:
				// package-level closures: var x = func() {...}
				if fd.Tok != token.VAR {
					continue
				}
				hasLit := false
				ast.Inspect(fd, func(x ast.Node) bool {
					if _, ok := x.(*ast.FuncLit); ok {
						hasLit = true
					}
					return !hasLit
				})
				if !hasLit {
					continue
				}
				before := stats.Expanded
				n.curFile = f
				n.needImps = map[string]string{}
				ngd := n.clone(fd).(*ast.GenDecl)
				n.funcLits(ngd, &inlState{})
				if stats.Expanded == before {
					continue
				}
				nf.Decls[di] = ngd
				changes = append(changes, change{&nf, di, d, nil, n.needImps})
			}
		}
	}
	// (a package without changes is still checked again: it may import a package that changed)
	// add the imports pasted code needs
	for _, ch := range changes {
		for name, path := range ch.imps {
			has := false
			for _, im := range ch.file.Imports {
				if strings.Trim(im.Path.Value, `"`) == path {
					has = true
				}
			}
			if has {
				continue
			}
			spec := &ast.ImportSpec{Name: ident(name, ch.file.Package), Path: &ast.BasicLit{Kind: token.STRING, Value: `"` + path + `"`, ValuePos: ch.file.Package}}
			ch.file.Imports = append(ch.file.Imports, spec)
			ch.file.Decls = append([]ast.Decl{&ast.GenDecl{Tok: token.IMPORT, TokPos: ch.file.Package, Specs: []ast.Spec{spec}}}, ch.file.Decls...)
			// indexes of later decls shift by one in this file
			for i := range changes {
				if changes[i].file == ch.file {
					changes[i].idx++
				}
			}
		}
	}
	imp := mapImporter{}
	var addImports func(q *packages.Package)
	seen := map[*packages.Package]bool{}
	addImports = func(q *packages.Package) {
		if seen[q] {
			return
		}
		seen[q] = true
		for path, r := range q.Imports {
			if r.Types != nil {
				imp[path] = r.Types
			}
			addImports(r)
		}
	}
	addImports(p)
	panicked := false
	check := func() (tpkg *types.Package, tinfo *types.Info, errs []types.Error) {
		// a pasted construct the type checker cannot even look at (it panics on inconsistent positions):
		// treated like a type error everywhere — every expansion of this package is taken back
		defer func() {
			if r := recover(); r != nil {
				panicked = true
				errs = append(errs, types.Error{Fset: fset, Msg: fmt.Sprintf("type checker panic: %v", r)})
			}
		}()
		conf := &types.Config{Importer: imp, Sizes: p.TypesSizes, Error: func(err error) {
			if te, ok := err.(types.Error); ok {
				errs = append(errs, te)
			}
		}}
		if p.Module != nil && p.Module.GoVersion != "" {
			conf.GoVersion = "go" + p.Module.GoVersion
		}
		info := &types.Info{
			Types:        map[ast.Expr]types.TypeAndValue{},
			Defs:         map[*ast.Ident]types.Object{},
			Uses:         map[*ast.Ident]types.Object{},
			Implicits:    map[ast.Node]types.Object{},
			Instances:    map[*ast.Ident]types.Instance{},
			Scopes:       map[ast.Node]*types.Scope{},
			Selections:   map[*ast.SelectorExpr]*types.Selection{},
			FileVersions: map[*ast.File]string{},
		}
		tp, _ := conf.Check(p.PkgPath, fset, newFiles, info)
		return tp, info, errs
	}
	tp, info, errs := check()
	for round := 0; len(errs) > 0 && round < 4; round++ {
		// revert the functions that contain an error position (or, failing that, everything)
		reverted := 0
		if panicked {
			panicked = false
			for i := range changes {
				ch := &changes[i]
				if ch.old != nil {
					ch.file.Decls[ch.idx] = ch.old
					ch.old = nil
					reverted++
					stats.Reverted++
				}
			}
			tp, info, errs = check()
			continue
		}
		for i := range changes {
			ch := &changes[i]
			if ch.old == nil {
				continue
			}
			var nd ast.Node = ch.file.Decls[ch.idx]
			hit := false
			posSet := map[token.Pos]bool{}
			ast.Inspect(nd, func(x ast.Node) bool {
				if x != nil {
					posSet[x.Pos()] = true
				}
				return true
			})
			for _, e := range errs {
				if posSet[e.Pos] {
					hit = true
				}
			}
			if hit {
				ch.file.Decls[ch.idx] = ch.old
				ch.old = nil
				reverted++
				stats.Reverted++
				if debugNormalize {
					for _, e := range errs {
						if posSet[e.Pos] {
							fmt.Fprintf(debugOut, "normalize: reverted %s: %s\n", declName(nd), e.Error())
							break
						}
					}
				}
			}
		}
		if reverted == 0 {
			break
		}
		tp, info, errs = check()
	}
	if len(errs) > 0 {
		msgs := []string{}
		for i, e := range errs {
			if i < 8 {
				msgs = append(msgs, e.Error())
			}
		}
		return fmt.Errorf("normalised package %s does not type-check: %s", p.PkgPath, strings.Join(msgs, "; "))
	}
	for _, ch := range changes {
		if ch.old != nil {
			stats.Funcs++
		}
	}
	// helpers that are no longer referenced anywhere: dead code of the normalised program
	used := map[string]bool{}
	for _, ob := range info.Uses {
		if f, ok := ob.(*types.Func); ok {
			used[f.Origin().FullName()] = true
		}
	}
	ifaceMethods := map[string]bool{}
	for _, tv := range info.Types {
		if it, ok := tv.Type.Underlying().(*types.Interface); ok {
			for i := 0; i < it.NumMethods(); i++ {
				ifaceMethods[it.Method(i).Name()] = true
			}
		}
	}
	for _, name := range tp.Scope().Names() {
		if tn, ok := tp.Scope().Lookup(name).(*types.TypeName); ok {
			if it, ok := tn.Type().Underlying().(*types.Interface); ok {
				for i := 0; i < it.NumMethods(); i++ {
					ifaceMethods[it.Method(i).Name()] = true
				}
			}
		}
	}
	for f, why := range n.elig {
		if why != "" || stats.Helpers[f.FullName()] == 0 || used[f.FullName()] {
			continue
		}
		if f.Type().(*types.Signature).Recv() != nil && ifaceMethods[f.Name()] {
			continue
		}
		stats.Dead[f.FullName()] = true
	}
	p.Syntax = newFiles
	p.Types = tp
	p.TypesInfo = info
	return nil
}

func declName(n ast.Node) string {
	if fd, ok := n.(*ast.FuncDecl); ok {
		return fd.Name.Name
	}
	return "decl"
}

// propagateMethodValues rewrites, inside one function body, a local that is bound once to a method
// value of a pointer with a pointer-receiver method and is only ever called:
//
//	f := x.M ... f(a, b)      =>      __mv_f := x ... __mv_f.M(a, b)
//
// (binding such a method value evaluates x and nothing else — no copy, no dereference — so calling the
// method on the saved pointer is the same computation).
func (n *normalizer) propagateMethodValues(body *ast.BlockStmt) {
	type cand struct {
		as  *ast.AssignStmt
		obj types.Object
		sel *ast.SelectorExpr
		ok  bool
	}
	cands := map[types.Object]*cand{}
	ast.Inspect(body, func(x ast.Node) bool {
		as, ok := x.(*ast.AssignStmt)
		if !ok || as.Tok != token.DEFINE || len(as.Lhs) != 1 || len(as.Rhs) != 1 {
			return true
		}
		id, ok := as.Lhs[0].(*ast.Ident)
		if !ok || id.Name == "_" {
			return true
		}
		sel, ok := ast.Unparen(as.Rhs[0]).(*ast.SelectorExpr)
		if !ok {
			return true
		}
		osel, _ := n.o(sel).(*ast.SelectorExpr)
		s := n.info.Selections[osel]
		if s == nil || s.Kind() != types.MethodVal || len(s.Index()) != 1 {
			return true
		}
		if _, isPtr := s.Recv().(*types.Pointer); !isPtr {
			return true
		}
		m, ok := s.Obj().(*types.Func)
		if !ok {
			return true
		}
		if _, recvPtr := m.Type().(*types.Signature).Recv().Type().(*types.Pointer); !recvPtr {
			return true
		}
		oid, _ := n.o(id).(*ast.Ident)
		obj := n.info.Defs[oid]
		if obj == nil {
			return true
		}
		cands[obj] = &cand{as: as, obj: obj, sel: sel, ok: true}
		return true
	})
	if len(cands) == 0 {
		return
	}
	// every other mention must be the callee of a call
	callFun := map[*ast.Ident]*ast.CallExpr{}
	ast.Inspect(body, func(x ast.Node) bool {
		if call, ok := x.(*ast.CallExpr); ok {
			if id, ok := call.Fun.(*ast.Ident); ok {
				callFun[id] = call
			}
		}
		return true
	})
	ast.Inspect(body, func(x ast.Node) bool {
		id, ok := x.(*ast.Ident)
		if !ok {
			return true
		}
		oid, _ := n.o(id).(*ast.Ident)
		if oid == nil {
			return true
		}
		if ob := n.info.Uses[oid]; ob != nil {
			if c := cands[ob]; c != nil && callFun[id] == nil {
				c.ok = false
			}
		}
		return true
	})
	for _, c := range cands {
		if !c.ok {
			continue
		}
		lhs := c.as.Lhs[0].(*ast.Ident)
		tmp := "__mv_" + lhs.Name
		method := c.sel.Sel.Name
		c.as.Lhs[0] = ident(tmp, lhs.Pos())
		c.as.Rhs[0] = c.sel.X
		for id, call := range callFun {
			oid, _ := n.o(id).(*ast.Ident)
			if oid != nil && n.info.Uses[oid] == c.obj {
				// (the new selector stands for the original method value: same method, same receiver type)
				nsel := &ast.SelectorExpr{X: ident(tmp, id.Pos()), Sel: ident(method, id.Pos())}
				n.orig[nsel] = n.o(c.sel)
				n.orig[nsel.Sel] = n.o(c.sel.Sel)
				if ox, isExpr := n.o(c.sel.X).(ast.Expr); isExpr {
					n.mvRecvType[nsel.X.(*ast.Ident)] = ox
				}
				call.Fun = nsel
			}
		}
		n.stats.MethodValues++
	}
}

// mentionsSelector: the declaration's body contains the qualified identifier pkg.name.
func mentionsSelector(fd *ast.FuncDecl, pkg, name string) bool {
	found := false
	ast.Inspect(fd, func(x ast.Node) bool {
		if se, ok := x.(*ast.SelectorExpr); ok && se.Sel.Name == name {
			if id, isId := se.X.(*ast.Ident); isId && id.Name == pkg {
				found = true
			}
		}
		return !found
	})
	return found
}
