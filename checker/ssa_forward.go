package main

import (
	"go/token"
	"go/types"
	"strings"

	"golang.org/x/tools/go/ssa"
	"golang.org/x/tools/go/ssa/ssautil"
)

// Store-to-load forwarding through private local structs.
//
// After helper expansion a value often travels from one phase of a function to the next inside a small struct
// (a parameter object: built in a literal, assigned to the result variable of the expanded helper, copied
// into the parameter variable of the next one) and is read back field by field.  go/ssa keeps such a struct in
// memory, so every rule that follows values would lose them there.  This pass rewrites the reads: where a
// local struct never escapes (its address is only used to store and load fields, or to copy the struct
// whole), a field that is written exactly once before a read reads back as the written value.  The rewrite
// is semantics-preserving; it only removes a detour.

func forwardPrivateStructsAll(prog *ssa.Program) int {
	n := 0
	for fn := range ssautil.AllFunctions(prog) {
		if fn.Blocks == nil || fn.Pkg == nil || !strings.HasPrefix(fn.Pkg.Pkg.Path(), modPath) {
			continue
		}
		n += devirtualiseThunkCalls(fn)
		for i := 0; i < 6; i++ {
			k := forwardPrivateStructs(fn)
			n += k
			if k == 0 {
				break
			}
		}
	}
	return n
}

type fwdAllocInfo struct {
	private     bool
	stores      map[int][]*ssa.Store
	wholeStores []*ssa.Store
}

func forwardPrivateStructs(fn *ssa.Function) int {
	infos := map[*ssa.Alloc]*fwdAllocInfo{}
	infoOf := func(al *ssa.Alloc) *fwdAllocInfo {
		if ai, ok := infos[al]; ok {
			return ai
		}
		ai := &fwdAllocInfo{private: true, stores: map[int][]*ssa.Store{}}
		infos[al] = ai
		if _, isStruct := derefType(al.Type()).Underlying().(*types.Struct); !isStruct || al.Referrers() == nil {
			ai.private = false
			return ai
		}
		for _, r := range *al.Referrers() {
			switch x := r.(type) {
			case *ssa.DebugRef:
			case *ssa.FieldAddr:
				if x.Referrers() == nil {
					ai.private = false
					continue
				}
				for _, fr := range *x.Referrers() {
					switch y := fr.(type) {
					case *ssa.DebugRef:
					case *ssa.Store:
						if y.Addr != ssa.Value(x) {
							ai.private = false
						}
						ai.stores[x.Field] = append(ai.stores[x.Field], y)
					case *ssa.UnOp:
						if y.Op != token.MUL {
							ai.private = false
						}
					default:
						ai.private = false
					}
				}
			case *ssa.Store:
				if x.Addr != ssa.Value(al) || x.Val == ssa.Value(al) {
					ai.private = false
				}
				ai.wholeStores = append(ai.wholeStores, x)
			case *ssa.UnOp:
				if x.Op != token.MUL {
					ai.private = false
				}
			default:
				ai.private = false
			}
		}
		return ai
	}
	before := func(a, b ssa.Instruction) bool {
		if a.Block() == b.Block() {
			return instrIndex(a) < instrIndex(b)
		}
		return a.Block().Dominates(b.Block())
	}
	// a loop could run the single store several times and a load in the same loop before it; "before" by
	// dominance covers that: the store dominates the load, so each load sees the latest execution of the
	// store — which wrote the value the forwarded SSA name has at that time only if the name is not redefined
	// in between: SSA names are defined once per iteration and the store's operand dominates the store.
	var fieldAt func(al *ssa.Alloc, f int, at ssa.Instruction, depth int) ssa.Value
	fieldAt = func(al *ssa.Alloc, f int, at ssa.Instruction, depth int) ssa.Value {
		if depth > 6 {
			return nil
		}
		ai := infoOf(al)
		if !ai.private || len(ai.stores[f])+len(ai.wholeStores) != 1 {
			return nil
		}
		if len(ai.stores[f]) == 1 {
			st := ai.stores[f][0]
			if !before(st, at) {
				return nil
			}
			return st.Val
		}
		ws := ai.wholeStores[0]
		if !before(ws, at) {
			return nil
		}
		if ld, ok := ws.Val.(*ssa.UnOp); ok && ld.Op == token.MUL {
			if src, isAl := ld.X.(*ssa.Alloc); isAl && src.Parent() == al.Parent() {
				return fieldAt(src, f, ld, depth+1)
			}
		}
		return nil
	}
	// a variable that lives in a cell only because a closure reads it (a parameter or local captured by
	// reference, never written by the closure) and that is stored exactly once: each load the store dominates
	// reads the stored value
	var readOnlyFreeVar func(fv *ssa.FreeVar, depth int) bool
	readOnlyFreeVar = func(fv *ssa.FreeVar, depth int) bool {
		if depth > 3 || fv.Referrers() == nil {
			return false
		}
		for _, r := range *fv.Referrers() {
			switch y := r.(type) {
			case *ssa.DebugRef:
			case *ssa.UnOp:
				if y.Op != token.MUL {
					return false
				}
			case *ssa.MakeClosure:
				inner, isFn := y.Fn.(*ssa.Function)
				if !isFn {
					return false
				}
				for i, b := range y.Bindings {
					if b == ssa.Value(fv) && (i >= len(inner.FreeVars) || !readOnlyFreeVar(inner.FreeVars[i], depth+1)) {
						return false
					}
				}
			default:
				return false
			}
		}
		return true
	}
	cellStore := map[*ssa.Alloc]*ssa.Store{}
	cellOf := func(al *ssa.Alloc) *ssa.Store {
		if st, done := cellStore[al]; done {
			return st
		}
		cellStore[al] = nil
		if al.Referrers() == nil {
			return nil
		}
		var only *ssa.Store
		for _, r := range *al.Referrers() {
			switch y := r.(type) {
			case *ssa.DebugRef:
			case *ssa.Store:
				if y.Addr != ssa.Value(al) || y.Val == ssa.Value(al) || only != nil {
					return nil
				}
				only = y
			case *ssa.UnOp:
				if y.Op != token.MUL {
					return nil
				}
			case *ssa.MakeClosure:
				inner, isFn := y.Fn.(*ssa.Function)
				if !isFn {
					return nil
				}
				for i, b := range y.Bindings {
					if b == ssa.Value(al) && (i >= len(inner.FreeVars) || !readOnlyFreeVar(inner.FreeVars[i], 0)) {
						return nil
					}
				}
			default:
				return nil
			}
		}
		cellStore[al] = only
		return only
	}
	repl := map[ssa.Value]ssa.Value{}
	for _, b := range fn.Blocks {
		for _, in := range b.Instrs {
			switch x := in.(type) {
			case *ssa.UnOp:
				if x.Op != token.MUL {
					continue
				}
				if al, isAl := x.X.(*ssa.Alloc); isAl {
					if st := cellOf(al); st != nil && before(st, x) && types.Identical(st.Val.Type(), x.Type()) {
						repl[x] = st.Val
					}
					continue
				}
				fa, ok := x.X.(*ssa.FieldAddr)
				if !ok {
					continue
				}
				if al, isAl := fa.X.(*ssa.Alloc); isAl {
					if v := fieldAt(al, fa.Field, x, 0); v != nil && types.Identical(v.Type(), x.Type()) {
						repl[x] = v
					}
				}
			case *ssa.Field:
				ld, ok := x.X.(*ssa.UnOp)
				if !ok || ld.Op != token.MUL {
					continue
				}
				if al, isAl := ld.X.(*ssa.Alloc); isAl {
					if v := fieldAt(al, x.Field, ld, 0); v != nil && types.Identical(v.Type(), x.Type()) {
						repl[x] = v
					}
				}
			}
		}
	}
	if len(repl) == 0 {
		return 0
	}
	resolve := func(v ssa.Value) ssa.Value {
		for i := 0; i < 8; i++ {
			r, ok := repl[v]
			if !ok {
				return v
			}
			v = r
		}
		return v
	}
	n := 0
	var rands []*ssa.Value
	for _, b := range fn.Blocks {
		for _, in := range b.Instrs {
			rands = in.Operands(rands[:0])
			for _, op := range rands {
				if op == nil || *op == nil {
					continue
				}
				old := *op
				if _, hit := repl[old]; !hit {
					continue
				}
				nv := resolve(old)
				if nv == old {
					continue
				}
				*op = nv
				n++
				if refs := old.Referrers(); refs != nil {
					for i, r := range *refs {
						if r == in {
							*refs = append((*refs)[:i:i], (*refs)[i+1:]...)
							break
						}
					}
				}
				if refs := nv.Referrers(); refs != nil {
					*refs = append(*refs, in)
				}
			}
		}
	}
	return n
}

// Calls of method-expression thunks read as the call they make.
//
// A method expression (Constraint.ProcessAfterUpdate, (*bbolt.DB).Update) is compiled to a synthetic thunk
// whose body is the one call; once such a function value has been β-reduced into the place where it is
// applied, the call site reads "thunk(recv, args...)".  This pass rewrites the call site into the call the
// thunk makes — an interface invoke on the receiver, or the static call of the concrete method — so every
// rule sees the same construct as when the method had been called directly.  Semantics-preserving.
func devirtualiseThunkCalls(fn *ssa.Function) int {
	n := 0
	for _, b := range fn.Blocks {
		for _, in := range b.Instrs {
			ci, ok := in.(ssa.CallInstruction)
			if !ok {
				continue
			}
			cc := ci.Common()
			if cc.IsInvoke() {
				continue
			}
			// a function value converted to a named function type (boltCursorMove(f)) is called as f
			for {
				ct, isCT := cc.Value.(*ssa.ChangeType)
				if !isCT {
					break
				}
				switch ct.X.(type) {
				case *ssa.Function, *ssa.MakeClosure:
				default:
					isCT = false
				}
				if !isCT {
					break
				}
				if refs := ct.Referrers(); refs != nil {
					for i, r := range *refs {
						if r == in {
							*refs = append((*refs)[:i:i], (*refs)[i+1:]...)
							break
						}
					}
				}
				if refs := ct.X.Referrers(); refs != nil {
					*refs = append(*refs, in)
				}
				cc.Value = ct.X
				n++
			}
			th, _ := cc.Value.(*ssa.Function)
			if th == nil || !strings.HasPrefix(th.Synthetic, "thunk") || len(th.Blocks) != 1 || len(th.FreeVars) != 0 || len(th.Params) == 0 || len(cc.Args) != len(th.Params) {
				continue
			}
			var inner *ssa.Call
			okBody := true
			for _, tin := range th.Blocks[0].Instrs {
				switch x := tin.(type) {
				case *ssa.Call:
					if inner != nil {
						okBody = false
					}
					inner = x
				case *ssa.Return, *ssa.DebugRef, *ssa.Extract:
				default:
					okBody = false
				}
			}
			if !okBody || inner == nil {
				continue
			}
			ic := inner.Common()
			if ic.IsInvoke() {
				if ic.Value != ssa.Value(th.Params[0]) || len(ic.Args) != len(th.Params)-1 {
					continue
				}
				same := true
				for i, a := range ic.Args {
					if a != ssa.Value(th.Params[i+1]) {
						same = false
					}
				}
				if !same {
					continue
				}
				cc.Value = cc.Args[0]
				cc.Method = ic.Method
				cc.Args = cc.Args[1:]
				n++
				continue
			}
			callee := ic.StaticCallee()
			if callee == nil || len(ic.Args) != len(th.Params) {
				continue
			}
			same := true
			for i, a := range ic.Args {
				if a != ssa.Value(th.Params[i]) {
					same = false
				}
			}
			if !same {
				continue
			}
			cc.Value = callee
			n++
		}
	}
	return n
}
