package main

import (
	"fmt"
	"go/constant"
	"go/token"
	"go/types"
	"sort"
	"strings"

	"golang.org/x/tools/go/ssa"
)

func init() {
	register(&Property{
		ID:          "C08",
		Title:       "Entity events: exactly once per committed change, none for undone work",
		Technique:   "static analysis: exactly-once must-pass rules for event firing in Create/Update/DeleteById, final-state reload ordering, who-may-call rule restricting delivery to tx.OnCommit registrations, sibling table over the three listener adapters (change type ↔ predicate ↔ state ↔ sync/async), decision tables of the event-type predicates, Update/Batch agreement on tx-complete registration; once-per-transaction placement rule; decision table of the listener adapters over one loop iteration; flow accounting of DeleteById",
		LevelText:   "Decides on every path: Create and Update fire exactly one parent event and one own event (no loop, after reloading the committed state), DeleteById fires one event per collected change flow; events are delivered only through functions registered with bbolt Tx.OnCommit (so nothing is delivered for a transaction that does not commit); the parent flow exists only for child stores and is marked as parent event; each adapter invokes its listener once per matching (change type, predicate) with the final state for create/update and the initial state for delete, synchronously or via `go` exactly as the event type says; Update and Batch both register the tx-complete listeners with OnCommit. Delivery counts on real histories and asynchronous ordering are not decided. Tx-complete registration and the pre-commit run sit only in the body of the outermost bolt transaction (a joined nested call does neither again); AddTxCompleteListener appends on every path; the three listener adapters are decided as a 64-row table (delivered exactly once iff the event matches, with the right state, via go iff async); every change flow DeleteById collects has exactly one firing mechanism on every successful path. Added in round 8: binding a transaction to a mutate context registers the commit handler with it unconditionally (COMMITHOOK). Added in round 10: COMMITHOOK covers every store of a transaction into the context's transaction field, constructors included. Added in round 11: listener states are loaded through store.impl (IMPLSTATE); the post-commit loop ends only when all constraints have run (POSTALL). Added in round 13: the change flow an iteration of the child-store loop of DeleteById is answered is appended or used in that iteration, not left in a variable the next iteration overwrites (FLOWKEPT).",
		LevelNote:   "Trusted: go/types, x/tools SSA, bbolt OnCommit semantics (hooks run only after a successful commit).",
		DesignRef:   "DESIGN.md C08",
		Explanation: "Sites: BaseStore.Create/Update/DeleteById/fireParentEvent, EntityChangeState.fireEvents/initFromChild/loadFinalState, the three *ListenerAdapter.ProcessPostCommit, EntityEventType predicates, DbImpl.Update/Batch closures.",
		Trusted:     []string{"go/types", "golang.org/x/tools/go/ssa v0.29.0", "bbolt Tx.OnCommit"},
		Rules: func(c *Ctx) {
			ruleC08Once(c)
			rulePostCommit(c, "C08.COMMITONLY")
			c.Floor("C08.COMMITONLY", 3)
			ruleC08Parent(c)
			ruleC08Adapters(c)
			ruleC08TxComplete(c)
			ruleListenerRegistered(c, "C08.REGISTER", "AddTxCompleteListener", "txCompleteListeners")
			ruleCommitHook(c, "C08.COMMITHOOK")
			ruleImplState(c, "C08.IMPLSTATE")
			rulePostCommitAll(c, "C08.POSTALL")
			ruleRegistrationReachesPhase(c, "C08.LISTENERREG", "post")
			ruleListenersKept(c, "C08.LISTENERSKEPT", "txCompleteListeners")
			ruleC08Actions(c)
			ruleLoopFlowKept(c, "C08.FLOWKEPT")
			ruleCtxIdentity(c, "C08.CTXIDENTITY")
			// updates and deletes through the parent reach a child store only through its registered strategy
			ruleChildStrategiesAppend(c, "C08.CHILDREG")
			ruleC08OwnFilter(c)
		},
	})
	register(&Property{
		ID:          "C15",
		Title:       "Parent and child (extension) stores stay consistent",
		Technique:   "static analysis: per-iteration path rule for the child-store filter in every id scan, routing order rule in Update/DeleteById, forwarding table for the parent persist/indexing contexts, wrapper-normalisation rule for extended stores, path-construction rule for nested child data; parent chaining on every returning path; role-based discovery of the row-filtering scan functions",
		LevelText:   "Decides on every path: each scan loop skips ids that lack child data (unless the store is extended) before evaluating the filter; extended stores wrap id iteration in the valid-ids cursor and normalise its initial position; loads return nothing for a plain parent entity through a non-extended child and the parent data through an extended one; Update tries the child-store handlers (forwarding the same field checker) before its own persist; the parent indexing context is created iff a parent exists and shares the error holder; the parent persist context forwards id, mutate context, field checker and create flag and shares the child's error holder; child data is nested below the parent's entity bucket. Query results on mixed populations are not decided. newIndexingContext creates and stores the parent store's context on every returning path unless there is no parent; the child-presence filter is checked in every scanner function that evaluates the query filter per row (found by role). Added later: child strategies are appended (CHILDREG); IterateIds hands out only the filtering scanner (IDCURSOR); FindById, LoadById and LoadEntity fill from the bucket the shared load lookup found (LOADERS). Strengthened in round 8: a child store hands the delete to its parent on every path. Added in round 10: once the child store's Update has run the update handler answers (true, that result) (CHILDUPDATE). Added in round 11: NewTypedBucket answers a fresh object on every path (NEWBUCKET); ENTITYBUCKET as in C05. Added in round 13: PROTOCOL as in C03; membership on the delete path is decided by the load, not by IsEntityPresent, unless the store asks whether it is extended (DELETEMEMBER). A create through a child store asks whether the parent row exists (PARENTROW: violated on the pinned tree, known finding). The delete hooks of the constraints use the unconditional removers (IDEMPOTENT: the parent's delete constraints run twice for child entities).",
		LevelNote:   "Trusted: go/types, x/tools SSA; user-supplied Mapper/EntityStrategy behaviour.",
		DesignRef:   "DESIGN.md C15",
		Explanation: "Sites: uniqueIndexScanner.Next/nextUnpaged, sortingScanner.ScanCursor, BaseStore.IterateValidIds/getEntityBucketForLoad/Update/newIndexingContext, ChildStoreUpdateHandler.HandleUpdate, PersistContext.GetParentContext, NewBaseStore, GetEntityBucket.",
		Trusted:     []string{"go/types", "golang.org/x/tools/go/ssa v0.29.0"},
		Rules: func(c *Ctx) {
			ruleC15ScanFilter(c)
			ruleProtocol(c, "C15.PROTOCOL")
			ruleDeleteMembership(c, "C15.DELETEMEMBER")
			ruleChildCreateAsksParent(c, "C15.PARENTROW")
			ruleDeleteHooksIdempotent(c, "C15.IDEMPOTENT")
			ruleChildUpdateHandled(c, "C15.CHILDUPDATE")
			ruleNeverNilCtor(c, "C15.NEWBUCKET")
			ruleEntityBucketDescent(c, "C15.ENTITYBUCKET")
			ruleValidIds(c, "C15.VALID")
			ruleOwnPresence(c, "C15.PRESENT")
			ruleC15Inherit(c)
			ruleChildStrategiesAppend(c, "C15.CHILDREG")
			ruleIdCursorFiltered(c, "C15.IDCURSOR")
			ruleLoadersShareLookup(c, "C15.LOADERS")
			ruleC15Route(c)
			ruleC15DeleteWhere(c)
			ruleC15Chain(c)
			ruleChildPaths(c, "C15.PATHS")
			ruleDeleteOrch(c, "C15.DELETE")
		},
	})
	register(&Property{
		ID:          "C16",
		Title:       "System entities can only be changed from a system context",
		Technique:   "static analysis: who-may-write rule for the system flag (written only on the create edge), hook-placement rule (update check before the persist, create check after it, delete check unconditional), complete decision table of checkOperation, constant-result rule for the two context kinds; error-holder sharing between child and parent persist contexts",
		LevelText:   "Decides on every path: the system flag field is written only by code reachable exclusively through the is-create edge of SetBaseValues; the constraint checks an update in ProcessBeforeUpdate (i.e. against the stored flag, before anything is persisted), a create in ProcessAfterUpdate and a delete unconditionally, recording the refusal in the error holder; checkOperation refuses exactly when the flag is set and the context is not a system context (8-row table); ordinary contexts answer IsSystemContext=false and system contexts true, and wrapping is idempotent. Registration of the constraint by user stores and the state after a refused operation (C07) are not decided here. A refusal recorded in the child's error holder survives the hand-over to the parent persist context (the parent bucket adopts the child's holder, not the reverse). Added later: the error result of the delete-constraint step is looked at on every path (LOOKEDAT); the flag read is followed into predicate helpers the hooks hand their own constraint and context to. Added in rounds 8-9: the context fn runs with is the caller's own (TXFN); the indexing context records into the operation's own holder (HOLDER); create-or-not handed to the contexts is a constant of the entry point (CREATECTX). Added in round 10: where fn runs with what setTx answered, every setTx answers with the context it was called on (TXFN). Added in round 11: the persist context writes through the bucket object the indexing context records into (SAMEBUCKET). Added in round 12: Update reaches success only through ProcessBeforeUpdate unless a child store handled it (HOOKSRUN); the hooks of every level of the store chain run (PROTOCOL, cross-listed). Added in round 13: DELETEMEMBER as in C15 (the system-entity guard of an extended store is not skipped for base-only rows).",
		LevelNote:   "Trusted: go/types, x/tools SSA, DECIDE interpreter.",
		DesignRef:   "DESIGN.md C16",
		Explanation: "Sites: every setter call whose field-name argument is FieldIsSystemEntity; systemEntityConstraint methods; mutateContext/systemMutateContext.IsSystemContext; NewSystemMutateContext.",
		Trusted:     []string{"go/types", "golang.org/x/tools/go/ssa v0.29.0"},
		Rules: func(c *Ctx) {
			ruleC16WriteOnce(c)
			ruleC16Hooks(c)
			ruleC16Decide(c)
			ruleC16Context(c)
			ruleC16NoEscalate(c)
			ruleProceedTable(c, "C16.PROCEED")
			// the refusal is recorded in the entity bucket's error cell and returned at the end of Update:
			// nothing written later may replace it by a success
			ruleFirstErrorWins(c, "C16.FIRSTERR")
			// the refusal of a child store's constraint comes back from processDeleteConstraints together with a
			// change flow: it must be looked at whatever the flow is
			ruleErrorLookedAtOnEveryPath(c, "C16.LOOKEDAT", c.prodFuncs("boltz"))
			// the context the caller's function runs with is the caller's own (a system context stays one)
			ruleTxFn(c, "C16.TXFN")
			// a refusal recorded by the constraint blocks the writers: the indexing context records into the
			// operation's own holder (the entity bucket), and create-or-not is fixed by the entry point
			ruleErrHolderShared(c, "C16.HOLDER")
			ruleCreateIsCreate(c, "C16.CREATECTX")
			ruleSameBucket(c, "C16.SAMEBUCKET")
			ruleUpdateRunsHooks(c, "C16.HOOKSRUN")
			// the hooks of every level of the store chain run (the system-entity constraint sits on the root store)
			ruleProtocol(c, "C16.PROTOCOL")
			ruleDeleteMembership(c, "C16.DELETEMEMBER")
			// a refusal recorded in the child's error holder must survive the hand-over to the parent context
			ruleParentChain(c, "C16.CHAIN")
		},
	})
	register(&Property{
		ID:          "C17",
		Title:       "Snapshot and restore reproduce the database exactly",
		Technique:   "static analysis: lockset rule (every bolt transaction entry under the reload read-lock, the file swap under the write lock), must-pass sequence Close<Rename<Rename<Open on every return of the restore, same-transaction read-decide-write rule for the timeline id, decision table of the timeline mode, copy-inside-read-transaction rule; handle rule (every read of the database handle that enters bolt happens under the reload lock, also through function values and closures); unconditional listener registration",
		LevelText:   "Decides necessary conditions on every path: all bbolt transaction entries of DbImpl run with reloadLock read-held and the restore's close/rename/rename/open sequence runs with it write-held, on every returning path of the restore (no shortcut around the swap); snapshots are copied from inside a read transaction and marked (snapshot id + reset flag) in one transaction whose error is returned; the timeline id is read, decided and rewritten inside one write transaction (so concurrent callers cannot both reset) and forceResetTimeline has the documented truth table; restore listeners start only after the new database is open. Content equality after restore and mixture-freedom of concurrent transactions depend on bbolt and the file system and are not decided. Stated on loads of DbImpl.db: each load whose value enters a bolt transaction (directly, through a method expression handed to a helper, or inside a closure invoked under the lock) happens with reloadLock read-held; AddRestoreListener appends the given listener on every path. Added later: wherever package boltz reads a stream by hand, no path on which n > 0 is possible reaches a successful return or the next Read without buf[:n] taken (READLOOP; io.Reader may return the last bytes together with io.EOF; zero sites on the pinned tree, positive and negative control). Strengthened in round 8: snapshot id and timeline-reset flag are written on every path of the marking transaction. Added in round 13: the transaction that stamps the snapshot copy is only used to find the metadata bucket (STAMPONLY); the timeline reset flag is set to true by the stamp only (RESETONCE).",
		LevelNote:   "Trusted: go/types, x/tools SSA, sync.RWMutex, bbolt, os.Rename atomicity.",
		DesignRef:   "DESIGN.md C17",
		Explanation: "Sites: every method of DbImpl; the closures of Snapshot, MarkAsSnapshot, GetTimelineId; TimelineMode.forceResetTimeline.",
		Trusted:     []string{"go/types", "golang.org/x/tools/go/ssa v0.29.0", "sync.RWMutex", "bbolt"},
		Controls: []controlExpect{
			{"C17.READLOOP", "zzControlBad_C17_READLOOP", true},
			{"C17.READLOOP", "zzControlGood_C17_READLOOP", false},
		},
		Rules: func(c *Ctx) {
			ruleSnapshotStamp(c, "C17.STAMPONLY", "C17.RESETONCE")
			ruleC17Lock(c)
			ruleC17Restore(c)
			ruleC17Snapshot(c)
			ruleC17Timeline(c)
			ruleC17NoCache(c)
			ruleListenerRegistered(c, "C17.LISTENERS", "AddRestoreListener", "restoreListeners")
			ruleReadLoop(c, "C17.READLOOP")
			ruleListenersKept(c, "C17.LISTENERSKEPT", "restoreListeners", "txCompleteListeners")
		},
	})
}

// ================================ C08 ===========================================================

func ruleC08Once(c *Ctx) {
	p := c.P
	// the step that queues the parent store's event: a helper of its own, or — once that helper is folded into
	// the shared tail of Create/Update — the fireEvents call on a flow the parent store made
	fireParent := p.MethodOpt("boltz", "BaseStore", "fireParentEvent")
	parentFldOnce := p.Field("boltz", "BaseStore", "parent")
	isParentFlowFire := func(call ssa.CallInstruction) bool {
		if !invokeNamed(call, "fireEvents") || !call.Common().IsInvoke() {
			return false
		}
		src, isCall := call.Common().Value.(*ssa.Call)
		if !isCall || !src.Call.IsInvoke() {
			return false
		}
		ff, _ := loadedField(src.Call.Value)
		return sameVar(ff, parentFldOnce)
	}
	for _, m := range []string{"Create", "Update"} {
		fn := p.SSAFunc(p.Method("boltz", "BaseStore", m))
		name := FnName(fn)
		c.Analysed(name)
		_ = ComputeFacts
		loops := loopsOf(fn)
		var parents, fires, loads []ssa.CallInstruction
		for _, call := range callsIn(fn) {
			if fireParent != nil && isCallTo(call, fireParent) {
				parents = append(parents, call)
			}
			if fireParent == nil && isParentFlowFire(call) {
				parents = append(parents, call)
				continue
			}
			if invokeNamed(call, "fireEvents") {
				fires = append(fires, call)
			}
			if invokeNamed(call, "loadFinalState") {
				loads = append(loads, call)
			}
		}
		ok := len(parents) == 1 && len(fires) == 1
		why := fmt.Sprintf("fireParentEvent ×%d, fireEvents ×%d (exactly one each expected)", len(parents), len(fires))
		if ok {
			if innermostLoop(loops, parents[0].Block()) != nil || innermostLoop(loops, fires[0].Block()) != nil {
				ok, why = false, "an event is fired inside a loop"
			}
			// every possibly-successful return after the persist passes both
			var persist ssa.Instruction
			for _, call := range callsIn(fn) {
				if invokeNamed(call, "PersistEntity") {
					persist = call
				}
			}
			for _, target := range []ssa.CallInstruction{parents[0], fires[0]} {
				if fireParent == nil && target == parents[0] {
					// written in place: the parent's event is queued on every successful path on which a parent exists
					fi := factsOf(fn)
					tgt := target
					ps := &pathSearch{fn: fn, fi: fi, start: persist.Block(), startIdx: instrIndex(persist) + 1,
						stop: func(in ssa.Instruction) bool { return in == ssa.Instruction(tgt) },
						skipEdge: func(from, to *ssa.BasicBlock) bool {
							for f := range fi.edgeFacts(from, to) {
								if ff, _ := loadedField(f.V); f.Kind == "nonnil" && !f.Pol && sameVar(ff, parentFldOnce) {
									return true
								}
							}
							return false
						}}
					ps.atReturn = func(r *ssa.Return, k knowMap) bool { return !returnIsFailure(fi, r, 0, k) }
					if ps.run() {
						ok, why = false, "a successful return is reachable after the persist without the parent store's event although a parent exists"
					}
					continue
				}
				ri := reachWithoutFrom(fn, persist, func(in ssa.Instruction) bool { return in == ssa.Instruction(target) })
				for _, r := range returnsOf(fn) {
					if (ri.entryReach[r.Block()] || r.Block() == persist.Block()) && ri.ReachesSuccess(r, 0) {
						ok, why = false, "a successful return is reachable after the persist without "+describeInstr(target)
					}
				}
			}
		}
		c.Check(ok, "C08.ONCE", name, p.Pos(fn.Pos()), "exactly one parent event and one own event are queued on every successful path, outside any loop", why)
		// final state is reloaded from the store before events are queued
		okLoad := len(loads) == 1
		whyLoad := "the committed state is not reloaded (loadFinalState) before events are queued: listeners would see the caller's object, including fields that were not persisted"
		if okLoad && len(parents) == 1 && len(fires) == 1 {
			ri := reachWithout(fn, func(in ssa.Instruction) bool { return in == ssa.Instruction(loads[0]) })
			if ri.Reaches(parents[0]) || ri.Reaches(fires[0]) {
				okLoad = false
			}
		}
		c.Check(okLoad, "C08.FINALSTATE", name, p.Pos(fn.Pos()), "loadFinalState precedes both event registrations", whyLoad)
	}
	lf := p.SSAFunc(p.Method("boltz", "EntityChangeState", "loadFinalState"))
	c.Analysed(FnName(lf))
	final := p.Field("boltz", "EntityChangeState", "FinalState")
	okLF := false
	whyLF := "FinalState is not loaded from the store"
	isReload := func(in ssa.Instruction) bool {
		if st, ok := in.(*ssa.Store); ok {
			if f, _ := fieldOfAddr(st.Addr); sameVar(f, final) {
				if ex, ok := st.Val.(*ssa.Extract); ok {
					if ti, isInstr := ex.Tuple.(ssa.Instruction); isInstr && invokeNamed(ti, "FindById") {
						return true
					}
				}
			}
		}
		return false
	}
	for _, b := range lf.Blocks {
		for _, in := range b.Instrs {
			if isReload(in) {
				okLF = true
			}
		}
	}
	// ... on EVERY successful path: an early return that keeps whatever FinalState already holds hands the
	// caller's own object (which it may go on changing before the commit) to the listeners
	if okLF && !noPathAvoidingSuccess(lf, factsOf(lf), isReload, nil) {
		okLF, whyLF = false, "a successful return is reachable without replacing FinalState by what FindById reads back: on that path listeners are handed the caller's object instead of the stored state"
	}
	c.Check(okLF, "C08.FINALSTATE", FnName(lf), p.Pos(lf.Pos()), "FinalState is what FindById reads back from the store, on every successful path", whyLF)
	// DeleteById: every change flow it collects is fired exactly once on every successful path
	ruleC08DeleteFlows(c)
	// fireEvents: processPreCommit then a single OnCommit registration
	fe := p.SSAFunc(p.Method("boltz", "EntityChangeState", "fireEvents"))
	c.Analysed(FnName(fe))
	onCommit := p.ExtMethod(bboltPath, "Tx", "OnCommit")
	nReg := 0
	var pre ssa.CallInstruction
	for _, call := range callsIn(fe) {
		if isCallTo(call, onCommit) {
			nReg++
		}
		if cal, _ := calleeOf(call.Common()); cal != nil && cal.Name() == "processPreCommit" {
			pre = call
		}
	}
	okFE := nReg == 1 && pre != nil
	if okFE {
		ri := reachWithout(fe, func(in ssa.Instruction) bool { return in == ssa.Instruction(pre) })
		for _, call := range callsIn(fe) {
			if isCallTo(call, onCommit) && ri.Reaches(call) {
				okFE = false
			}
		}
	}
	c.Check(okFE, "C08.ONCE", FnName(fe), p.Pos(fe.Pos()), "pre-commit constraints run first, then exactly one OnCommit registration", "fireEvents does not register post-commit delivery exactly once after the pre-commit phase")
	c.Floor("C08.ONCE", 4)
}

func ruleC08Parent(c *Ctx) {
	p := c.P
	if fp := p.MethodOpt("boltz", "BaseStore", "fireParentEvent"); fp != nil {
		ruleC08ParentIn(c, p.SSAFunc(fp), true)
	} else {
		// folded into the functions that used to call it
		for _, m := range []string{"Create", "Update"} {
			ruleC08ParentIn(c, p.SSAFunc(p.Method("boltz", "BaseStore", m)), false)
		}
	}
	ifc := p.SSAFunc(p.Method("boltz", "EntityChangeState", "initFromChild"))
	c.Analysed(FnName(ifc))
	pe := p.Field("boltz", "EntityChangeState", "ParentEvent")
	ruleC08ParentInit(c, ifc, pe)
}

func ruleC08ParentIn(c *Ctx, fn *ssa.Function, childIsParam bool) {
	p := c.P
	c.Analysed(FnName(fn))
	fi := ComputeFacts(fn)
	parentFld := p.Field("boltz", "BaseStore", "parent")
	ok := true
	why := ""
	n := 0
	underParent := func(call ssa.CallInstruction) bool {
		return fi.HoldsWhere(call.Block(), func(f Fact) bool {
			ff, _ := loadedField(f.V)
			return f.Kind == "nonnil" && f.Pol && sameVar(ff, parentFld)
		})
	}
	// the flow that is fired: made by a call on the parent store, initialised from the child's flow (here, or by
	// the parent's constructor when it is handed the child's flow), then fired — all only when a parent exists
	var fire, mk ssa.CallInstruction
	var ownFlow ssa.Value
	for _, call := range callsIn(fn) {
		if invokeNamed(call, "fireEvents") {
			if !childIsParam {
				// among several: the one on a flow made by the parent store; the other one is the store's own flow
				src, isCall := call.Common().Value.(*ssa.Call)
				isParentFlow := false
				if isCall && src.Call.IsInvoke() {
					ff, _ := loadedField(src.Call.Value)
					isParentFlow = sameVar(ff, parentFld)
				}
				if !isParentFlow {
					ownFlow = callRecv(call.Common())
					continue
				}
			}
			fire = call
			n++
		}
	}
	calledInit := func(in ssa.Instruction) bool {
		ci, isCall := in.(ssa.CallInstruction)
		if !isCall {
			return false
		}
		cal, _ := calleeOf(ci.Common())
		return cal != nil && cal.Name() == "initFromChild"
	}
	if fire != nil {
		if !underParent(fire) {
			ok, why = false, "a parent event is produced although the store has no parent"
		}
		if src, isCall := fire.Common().Value.(*ssa.Call); isCall && src.Call.IsInvoke() {
			if ff, _ := loadedField(src.Call.Value); sameVar(ff, parentFld) {
				mk = src
				n++
				if !underParent(src) {
					ok, why = false, "a parent event is produced although the store has no parent"
				}
			}
		}
	}
	if mk != nil && (len(fn.Params) > 1 || !childIsParam) {
		var child ssa.Value
		if childIsParam {
			child = ssa.Value(fn.Params[1])
		} else {
			child = ownFlow
			if child != nil {
				// handed on as the change-flow interface
				for _, call := range callsIn(fn) {
					if calledInit(call) && len(call.Common().Args) == 1 {
						if mi, isMI := call.Common().Args[0].(*ssa.MakeInterface); isMI && mi.X == ownFlow {
							child = mi
						}
					}
				}
			}
		}
		inited := false
		for _, call := range callsIn(fn) {
			if calledInit(call) && call.Common().IsInvoke() && call.Common().Value == mk.(ssa.Value) && len(call.Common().Args) == 1 && call.Common().Args[0] == child {
				inited = call.Block().Dominates(fire.Block())
				if !underParent(call) {
					ok, why = false, "a parent event is produced although the store has no parent"
				}
			}
		}
		if !inited {
			// handed to the constructor: every implementation in the module initialises what it returns from it
			argNo := -1
			for i, a := range mk.Common().Args {
				if a == child {
					argNo = i
				}
			}
			if argNo >= 0 {
				impls := 0
				all := true
				for _, cand := range c.prodFuncs("boltz") {
					if cand.Signature.Recv() == nil || cand.Name() != mk.Common().Method.Name() || len(cand.Params) <= argNo+1 {
						continue
					}
					impls++
					c.Analysed(FnName(cand))
					handed := cand.Params[argNo+1]
					good := noPathAvoiding(cand, func(in ssa.Instruction) bool {
						ci, isCall := in.(ssa.CallInstruction)
						if !isCall || !calledInit(in) {
							return false
						}
						args := ci.Common().Args
						return len(args) > 0 && args[len(args)-1] == ssa.Value(handed)
					}, nil)
					if !good {
						all = false
					}
				}
				inited = impls > 0 && all
			}
		}
		if inited {
			n++
		} else {
			why = "the parent's flow is not initialised from the child's flow before it is fired"
		}
	}
	c.Check(ok && n == 3, "C08.PARENT", FnName(fn), p.Pos(fn.Pos()), "the parent flow is created, initialised from the child and fired only when a parent store exists", why+fmt.Sprintf(" (steps found: %d of 3)", n))
}

func ruleC08ParentInit(c *Ctx, ifc *ssa.Function, pe *types.Var) {
	p := c.P
	okPE := false
	for _, b := range ifc.Blocks {
		for _, in := range b.Instrs {
			if st, isSt := in.(*ssa.Store); isSt {
				if f, _ := fieldOfAddr(st.Addr); sameVar(f, pe) {
					if v, isB := boolConst(st.Val); isB && v && b == ifc.Blocks[0] {
						okPE = true
					}
				}
			}
		}
	}
	c.Check(okPE, "C08.PARENT", FnName(ifc), p.Pos(ifc.Pos()), "the derived flow is unconditionally marked as a parent event", "the flow derived from a child change is not marked ParentEvent")
}

func ruleC08Adapters(c *Ctx) {
	p := c.P
	kinds := map[int64]string{}
	for _, n := range []string{"EntityCreated", "EntityUpdated", "EntityDeleted"} {
		kinds[constInt(p.Obj("boltz", n))] = n
	}
	wantPred := map[string]string{"EntityCreated": "IsCreate", "EntityUpdated": "IsUpdate", "EntityDeleted": "IsDelete"}
	wantState := map[string]string{"EntityCreated": "FinalState", "EntityUpdated": "FinalState", "EntityDeleted": "InitialState"}
	for _, tn := range []string{"entityListenerAdapter", "entityFunctionListenerAdapter", "untypedEventListenerWrapper"} {
		fn := p.SSAFunc(p.Method("boltz", tn, "ProcessPostCommit"))
		name := FnName(fn)
		c.Analysed(name)
		fi := ComputeFacts(fn)
		lst := p.Field("boltz", tn, "eventListener")
		// decision table over one iteration of the loop over the adapter's change types:
		// (state.ChangeType ∈ {created, updated, deleted, other}) × IsCreate × IsUpdate × IsDelete × IsAsync
		_ = fi
		loops := loopsOf(fn)
		ok, why := true, ""
		rows := 0
		if len(loops) != 1 {
			ok, why = false, fmt.Sprintf("expected one loop over the adapter's change types, found %d loops", len(loops))
		} else {
			hdrIf, _ := loops[0].Header.Instrs[len(loops[0].Header.Instrs)-1].(*ssa.If)
			isListenerCall := func(cc *ssa.CallCommon) bool {
				if cc.IsInvoke() || cc.StaticCallee() == nil {
					f, _ := loadedField(cc.Value)
					return sameVar(f, lst)
				}
				return false
			}
			kindVals := []int64{}
			for v := range kinds {
				kindVals = append(kindVals, v)
			}
			sort.Slice(kindVals, func(a, b int) bool { return kindVals[a] < kindVals[b] })
			kindVals = append(kindVals, 9999)
			for _, kv := range kindVals {
				for mask := 0; mask < 16 && ok; mask++ {
					isC, isU, isD, isA := mask&1 != 0, mask&2 != 0, mask&4 != 0, mask&8 != 0
					rows++
					hdrSeen := 0
					oracle := func(v ssa.Value) (AV, bool) {
						if hdrIf != nil && v == hdrIf.Cond {
							hdrSeen++
							return avBool(hdrSeen == 1), true
						}
						if f, _ := loadedField(v); f != nil {
							switch f.Name() {
							case "ChangeType":
								return avInt(kv), true
							case "FinalState", "InitialState":
								return AV{Kind: "sym", Sym: f.Name()}, true
							}
							return AV{Kind: "sym", Sym: "field:" + f.Name()}, true
						}
						if call, isCall := v.(*ssa.Call); isCall {
							if cal, _ := calleeOf(call.Common()); cal != nil {
								switch cal.Name() {
								case "IsCreate":
									return avBool(isC), true
								case "IsUpdate":
									return avBool(isU), true
								case "IsDelete":
									return avBool(isD), true
								case "IsAsync":
									return avBool(isA), true
								}
							}
							if isListenerCall(call.Common()) {
								return AV{Kind: "sym", Sym: "void"}, true
							}
						}
						if u, isLoad := v.(*ssa.UnOp); isLoad && u.Op == token.MUL {
							return AV{Kind: "sym", Sym: "load:" + u.X.Name()}, true
						}
						if _, isAlloc := v.(*ssa.Alloc); isAlloc {
							return AV{Kind: "sym", Sym: "zero"}, true
						}
						return AV{}, false
					}
					evs, err := DecideCalls(fn, oracle, func(ci ssa.CallInstruction) bool { return isListenerCall(ci.Common()) })
					desc := fmt.Sprintf("ChangeType=%s IsCreate=%v IsUpdate=%v IsDelete=%v IsAsync=%v", kinds[kv], isC, isU, isD, isA)
					if err != "" {
						ok, why = false, "one iteration is not decidable for "+desc+": "+err
						break
					}
					type delivery struct {
						isGo  bool
						state string
					}
					var got []delivery
					for _, ev := range evs {
						_, isGo := ev.Call.(*ssa.Go)
						st := ""
						if len(ev.Args) > 0 {
							st = ev.Args[len(ev.Args)-1].Sym
						}
						got = append(got, delivery{isGo, st})
					}
					kn := kinds[kv]
					match := (kn == "EntityCreated" && isC) || (kn == "EntityUpdated" && isU) || (kn == "EntityDeleted" && isD)
					switch {
					case !match && len(got) != 0:
						ok, why = false, fmt.Sprintf("%s: the listener is invoked although the event does not match the listener's change type (predicate %s)", desc, wantPred[kn])
					case match && len(got) != 1:
						ok, why = false, fmt.Sprintf("%s: %d deliveries, exactly one expected", desc, len(got))
					case match && got[0].state != wantState[kn]:
						ok, why = false, fmt.Sprintf("%s delivers %s, expected %s", desc, got[0].state, wantState[kn])
					case match && got[0].isGo != isA:
						ok, why = false, fmt.Sprintf("%s: async=%v but delivered with go=%v", desc, isA, got[0].isGo)
					}
				}
			}
		}
		_ = rows
		c.Check(ok, "C08.ADAPTERS", name, p.Pos(fn.Pos()), "decision table of one loop iteration (4 change kinds × IsCreate × IsUpdate × IsDelete × IsAsync = 64 rows): delivered exactly once iff the event matches (created→IsCreate→final, updated→IsUpdate→final, deleted→IsDelete→initial), via go iff IsAsync", why)
		// pre-commit of an adapter never vetoes
		pre := p.SSAFunc(p.Method("boltz", tn, "ProcessPreCommit"))
		okPre := true
		for _, r := range returnsOf(pre) {
			if !isNilConst(r.Results[0]) {
				okPre = false
			}
		}
		c.Check(okPre, "C08.ADAPTERS", FnName(pre), p.Pos(pre.Pos()), "listener adapters never veto", "a listener adapter's ProcessPreCommit can fail")
	}
	// predicates: decision tables
	names := map[string][]string{
		"IsCreate": {"EntityCreated", "EntityCreatedAsync"}, "IsUpdate": {"EntityUpdated", "EntityUpdatedAsync"},
		"IsDelete": {"EntityDeleted", "EntityDeletedAsync"}, "IsAsync": {"EntityCreatedAsync", "EntityUpdatedAsync", "EntityDeletedAsync"},
	}
	all := []string{"EntityCreated", "EntityUpdated", "EntityDeleted", "EntityCreatedAsync", "EntityUpdatedAsync", "EntityDeletedAsync"}
	for m, trueFor := range names {
		fn := p.SSAFunc(p.Method("boltz", "EntityEventType", m))
		c.Analysed(FnName(fn))
		ok, why := true, ""
		for _, k := range all {
			kv := constInt(p.Obj("boltz", k))
			res, err := Decide(fn, func(v ssa.Value) (AV, bool) {
				if v == ssa.Value(fn.Params[0]) {
					return avInt(kv), true
				}
				return AV{}, false
			}, nil)
			want := false
			for _, t := range trueFor {
				if t == k {
					want = true
				}
			}
			if err != "" || res[0].Kind != "const" || constant.BoolVal(res[0].C) != want {
				ok, why = false, fmt.Sprintf("%s(%s) = %v (%s), expected %v", m, k, res, err, want)
			}
		}
		c.Check(ok, "C08.ADAPTERS", FnName(fn), p.Pos(fn.Pos()), "decision table over the six event types is as documented", why)
	}
	c.Floor("C08.ADAPTERS", 10)
}

func ruleC08TxComplete(c *Ctx) {
	p := c.P
	onCommit := p.ExtMethod(bboltPath, "Tx", "OnCommit")
	mc := p.Named("boltz", "MutateContext")
	seen := map[string]bool{}
	for _, site := range txSites(c) {
		if (!site.Kinds["Update"] && !site.Kinds["Batch"]) || site.Forwarder {
			continue
		}
		outer := site.Outer
		name := FnName(outer)
		if len(site.Body) != 1 {
			c.Undecided("C08.TXCOMPLETE", name, p.Pos(outer.Pos()), "bolt closure not found")
			continue
		}
		inner := site.Body[0]
		for k := range site.Kinds {
			seen[k] = true
		}
		c.Analysed(FnName(inner))
		fi := ComputeFacts(inner)
		// an OnCommit registration of a closure that runs func(MutateContext) values
		var reg ssa.CallInstruction
		for _, call := range callsIn(inner) {
			if !isCallTo(call, onCommit) {
				continue
			}
			cl := anonFromArg(call.Common().Args[1])
			if cl == nil {
				continue
			}
			for _, k := range callsIn(cl) {
				sig := k.Common().Signature()
				if !k.Common().IsInvoke() && k.Common().StaticCallee() == nil && sig.Params().Len() == 1 && types.Identical(sig.Params().At(0).Type(), mc) {
					reg = call
				}
			}
		}
		ok := reg != nil
		why := "the transaction closure never registers the tx-complete listeners with tx.OnCommit (they would not run for this kind of transaction)"
		if ok {
			// every nil return passes the registration unless there are no listeners (nil slice edge)
			isReg := func(in ssa.Instruction) bool { return in == ssa.Instruction(reg) }
			if !noPathAvoidingSuccess(inner, fi, isReg, func(from, to *ssa.BasicBlock) bool {
				for f := range fi.edgeFacts(from, to) {
					if f.Kind == "nonnil" && !f.Pol {
						if _, isSlice := f.V.Type().Underlying().(*types.Slice); isSlice {
							return true
						}
					}
				}
				return false
			}) {
				ok, why = false, "a successful path of the transaction closure skips the tx-complete registration"
			}
		}
		c.Check(ok, "C08.TXCOMPLETE", name, p.Pos(outer.Pos()), "tx-complete listeners are registered with tx.OnCommit on every successful path (skipped only when there are none)", why)
	}
	// exactly once per transaction: the registration (and the pre-commit run) may only sit in a
	// function that runs as the body of the outermost bolt transaction — a joined (nested) call of
	// Update/Batch must do neither again
	bodies := map[*ssa.Function]bool{}
	for _, site := range txSites(c) {
		if site.Kinds["Update"] || site.Kinds["Batch"] {
			for _, b := range site.Body {
				bodies[b] = true
			}
		}
	}
	runPre := p.Method("boltz", "MutateContext", "runPreCommitActions")
	for _, fn := range c.prodFuncs("boltz") {
		for _, call := range callsIn(fn) {
			what := ""
			switch {
			case isCallTo(call, runPre):
				if fn.Name() == runPre.Name() {
					continue // a context wrapper delegating the same method
				}
				what = "runs the pre-commit actions"
			case isCallTo(call, onCommit):
				if cl := anonFromArg(call.Common().Args[1]); cl != nil {
					for _, k := range callsIn(cl) {
						sig := k.Common().Signature()
						if !k.Common().IsInvoke() && k.Common().StaticCallee() == nil && sig.Params().Len() == 1 && types.Identical(sig.Params().At(0).Type(), mc) {
							what = "registers the tx-complete listeners"
						}
					}
				}
			}
			if what == "" {
				continue
			}
			c.Check(bodies[fn], "C08.TXCOMPLETE", FnName(fn)+": "+what, p.Pos(call.Pos()), "only inside the body of the outermost bolt transaction (once per transaction)", "outside the body closure of the outermost bolt transaction: a nested Update/Batch that joins a running transaction "+what+" again, so listeners fire once per nesting level instead of once per commit")
		}
	}
	for _, k := range []string{"Update", "Batch"} {
		c.Check(seen[k], "C08.TXCOMPLETE", "boltz: bbolt "+k+" transactions", "-", "the "+k+" transaction body was found and analysed", "no "+k+" transaction body found: tx-complete listeners cannot be shown to run for it")
	}
	c.Floor("C08.TXCOMPLETE", 2)
}

// noPathAvoidingSuccess: like noPathAvoiding but only paths ending in a possibly-successful return count.
func noPathAvoidingSuccess(fn *ssa.Function, fi *FactInfo, avoid func(ssa.Instruction) bool, allowed func(from, to *ssa.BasicBlock) bool) bool {
	ei := errorResultIndex(fn.Signature)
	ps := &pathSearch{fn: fn, fi: fi, start: fn.Blocks[0], stop: avoid, skipEdge: allowed}
	ps.atReturn = func(r *ssa.Return, k knowMap) bool { return !returnIsFailure(fi, r, ei, k) }
	return !ps.run()
}

// ================================ C15 ===========================================================

func ruleC15ScanFilter(c *Ctx) {
	p := c.P
	// every function of the scanners that evaluates the query filter per row (found by what it does:
	// it calls EvalBool on the scanner's filter and reads rows from a cursor)
	for _, fn := range c.prodFuncs("boltz") {
		if fn.Parent() != nil {
			continue
		}
		var eval, start ssa.Instruction
		for _, call := range callsIn(fn) {
			if invokeNamed(call, "EvalBool") && call.Common().IsInvoke() && fn.Signature.Recv() != nil {
				if nm := namedOf(fn.Signature.Recv().Type()); nm != nil && strings.HasSuffix(strings.ToLower(nm.Obj().Name()), "scanner") {
					eval = call
				}
			}
			if invokeNamed(call, "Current") && call.Common().IsInvoke() {
				start = call
			}
		}
		if eval == nil {
			continue
		}
		name := FnName(fn)
		c.Analysed(name)
		fi := ComputeFacts(fn)
		if start == nil {
			c.Undecided("C15.SCANFILTER", name, p.Pos(fn.Pos()), "cannot find the per-row filter evaluation")
			continue
		}
		// from the start of an iteration (cursor.Current()) every path to EvalBool takes an edge that
		// establishes: not a child store, or child data present, or store is extended
		okEdge := func(from, to *ssa.BasicBlock) bool {
			for f := range fi.edgeFacts(from, to) {
				if f.Kind != "true" {
					continue
				}
				call, ok := f.V.(*ssa.Call)
				if !ok {
					continue
				}
				// the test kept as a predicate in a field of the scanner ("skip this row?"): answered "no" only
				// where one of the three holds, for every predicate the field is ever given
				if !f.Pol && !call.Call.IsInvoke() && call.Call.StaticCallee() == nil {
					if fld, _ := loadedField(call.Call.Value); fld != nil && skipPredicateField(c, fld) {
						return true
					}
				}
				// the test handed to a helper of the package ("is this row orphaned?"): answered "no" only where
				// one of the three holds (decided on the helper's own body)
				if !f.Pol && !call.Call.IsInvoke() {
					if g := call.Call.StaticCallee(); g != nil && g.Pkg == fn.Pkg && len(g.Blocks) > 0 && presenceHelperFalseImplies(g) {
						return true
					}
				}
				switch {
				case invokeNamed(call, "IsChildStore") && !f.Pol:
					return true
				case invokeNamed(call, "IsEntityPresent") && f.Pol:
					return true
				case invokeNamed(call, "IsExtended") && f.Pol:
					return true
				}
			}
			return false
		}
		ok := noPathFromToAvoiding(start, eval, okEdge)
		c.Check(ok, "C15.SCANFILTER", name, p.Pos(eval.Pos()), "within an iteration the filter is evaluated only after establishing: not a child store, or child data present, or extended store", "an id without child data can reach the filter of a non-extended child store: plain parent entities would be returned by child-store queries")
	}
	c.Floor("C15.SCANFILTER", 3)
}

// noPathFromToAvoiding: no path from `from` to `target` (within the function) avoids all allowed edges.
func noPathFromToAvoiding(from, target ssa.Instruction, allowed func(a, b *ssa.BasicBlock) bool) bool {
	ps := &pathSearch{fn: from.Parent(), start: from.Block(), startIdx: instrIndex(from) + 1, skipEdge: allowed, restart: from,
		target: func(in ssa.Instruction) bool { return in == target }}
	return !ps.run()
}

func ruleValidIds(c *Ctx, rule string) {
	p := c.P
	it := p.SSAFunc(p.Method("boltz", "BaseStore", "IterateValidIds"))
	c.Analysed(FnName(it))
	fi := ComputeFacts(it)
	vic := p.Named("boltz", "ValidIdsCursors")
	ext := p.Field("boltz", "BaseStore", "isExtended")
	present := p.Method("boltz", "ValidIdsCursors", "IsExtendedDataPresent")
	wraps, norm := false, false
	for _, b := range it.Blocks {
		for _, in := range b.Instrs {
			if al, ok := in.(*ssa.Alloc); ok && namedOf(al.Type()) == vic {
				wraps = fi.HoldsWhere(b, func(f Fact) bool {
					ff, _ := loadedField(f.V)
					return f.Kind == "true" && f.Pol && sameVar(ff, ext)
				})
			}
			if isCallTo(in, present) {
				norm = true
			}
		}
	}
	// the wrapper must be what is returned on the extended edge
	c.Check(wraps, rule, FnName(it)+": extended stores wrap", p.Pos(it.Pos()), "for an extended store the id cursor is wrapped in ValidIdsCursors", "extended stores do not wrap id iteration: parent entities without child data are iterated")
	c.Check(norm, rule, FnName(it)+": initial position", p.Pos(it.Pos()), "the wrapper's first position is checked for child data and advanced if necessary", "the wrapper's initial position is not normalised: the first id may lack child data")
	// getEntityBucketForLoad
	gl := p.SSAFunc(p.Method("boltz", "BaseStore", "getEntityBucketForLoad"))
	c.Analysed(FnName(gl))
	fi2 := ComputeFacts(gl)
	okParent := false
	for _, call := range callsIn(gl) {
		if invokeNamed(call, "GetEntityBucket") && call.Common().IsInvoke() {
			if fi2.HoldsWhere(call.Block(), func(f Fact) bool {
				k, isCall := f.V.(*ssa.Call)
				return f.Kind == "true" && f.Pol && isCall && invokeNamed(k, "IsExtended")
			}) {
				okParent = true
			}
		}
	}
	c.Check(okParent, rule, FnName(gl), p.Pos(gl.Pos()), "the parent's data is used as fallback only for an extended store", "a non-extended child store falls back to the parent's entity data (plain parent entities would load through the child store)")
	c.Floor(rule, 3)
}

func ruleC15Route(c *Ctx) {
	p := c.P
	up := p.SSAFunc(p.Method("boltz", "BaseStore", "Update"))
	c.Analysed(FnName(up))
	strat := p.Field("boltz", "BaseStore", "childStoreStrategies")
	var handle, find ssa.CallInstruction
	for _, call := range callsIn(up) {
		if invokeNamed(call, "HandleUpdate") && derivesFromField(call.Common().Value, strat, 0) {
			handle = call
		}
		if cal, _ := calleeOf(call.Common()); cal != nil && cal.Name() == "FindById" {
			find = call
		}
	}
	ok, why := handle != nil && find != nil, "child-store routing or own lookup missing"
	if ok {
		ri := reachWithoutFrom(up, find, func(ssa.Instruction) bool { return false })
		if ri.entryReach[handle.Block()] {
			ok, why = false, "the store persists itself before offering the update to its child stores"
		}
		// same checker forwarded
		if handle.Common().Args[len(handle.Common().Args)-1] != ssa.Value(up.Params[3]) {
			ok, why = false, "the field checker is not forwarded to the child store"
		}
		// handled -> return its error
		fi := ComputeFacts(up)
		ret := false
		for _, r := range returnsOf(up) {
			if ex, isEx := r.Results[0].(*ssa.Extract); isEx && ex.Tuple == ssa.Value(handle.(*ssa.Call)) {
				if fi.HoldsWhere(r.Block(), func(f Fact) bool {
					e2, isE := f.V.(*ssa.Extract)
					return f.Kind == "true" && f.Pol && isE && e2.Tuple == ssa.Value(handle.(*ssa.Call)) && e2.Index == 0
				}) {
					ret = true
				}
			}
		}
		if !ret {
			ok, why = false, "when a child store handled the update its result is not returned"
		}
	}
	c.Check(ok, "C15.ROUTE", FnName(up), p.Pos(up.Pos()), "child stores get the update first (same field checker) and their result is final when they handled it", why)
	hu := p.SSAFunc(p.Method("boltz", "ChildStoreUpdateHandler", "HandleUpdate"))
	c.Analysed(FnName(hu))
	okH := false
	for _, call := range callsIn(hu) {
		if invokeNamed(call, "Update") {
			args := call.Common().Args
			if args[len(args)-1] == ssa.Value(hu.Params[3]) && args[0] == ssa.Value(hu.Params[1]) {
				okH = true
			}
		}
	}
	c.Check(okH, "C15.ROUTE", FnName(hu), p.Pos(hu.Pos()), "forwards the mutate context and the same field checker to the child store's Update", "the child handler does not forward the caller's context/field checker")
}

func ruleC15Chain(c *Ctx) { ruleParentChain(c, "C15.CHAIN") }

func ruleParentChain(c *Ctx, rule string) {
	p := c.P
	parentFld := p.Field("boltz", "BaseStore", "parent")
	icT := p.Named("boltz", "IndexingContext")
	icParent := p.Field("boltz", "IndexingContext", "Parent")
	baseStore := p.Named("boltz", "BaseStore")
	// the constructors of indexing contexts: the BaseStore methods that allocate an IndexingContext and return it
	// (one function taking the create flag, or one function per kind of operation)
	var ctors []*ssa.Function
	for _, fn := range c.prodFuncs("boltz") {
		if fn.Signature.Recv() == nil || namedOf(fn.Signature.Recv().Type()) == nil || namedOf(fn.Signature.Recv().Type()).Origin() != baseStore {
			continue
		}
		if fn.Signature.Results().Len() != 1 || namedOf(fn.Signature.Results().At(0).Type()) != icT {
			continue
		}
		allocs := false
		for _, b := range fn.Blocks {
			for _, in := range b.Instrs {
				if al, isAl := in.(*ssa.Alloc); isAl && al.Heap && namedOf(al.Type()) == icT {
					allocs = true
				}
			}
		}
		if allocs {
			ctors = append(ctors, fn)
		}
	}
	if len(ctors) == 0 {
		c.Undecided(rule, "boltz.BaseStore: indexing context constructor", "-", "no BaseStore method allocates and returns an IndexingContext: the chaining rule has nothing to look at")
	}
	for _, ni := range ctors {
		c.Analysed(FnName(ni))
		fi := ComputeFacts(ni)
		// the chaining call: the same constructor, invoked on the parent store through its interface, with
		// every argument handed through unchanged
		isChain := func(in ssa.Instruction) bool {
			call, isCall := in.(ssa.CallInstruction)
			if !isCall || !call.Common().IsInvoke() || call.Common().Method.Name() != ni.Name() {
				return false
			}
			f, _ := loadedField(call.Common().Value)
			return sameVar(f, parentFld)
		}
		ok := false
		for _, call := range callsIn(ni) {
			if !isChain(call) {
				continue
			}
			args := call.Common().Args
			same := len(args) == len(ni.Params)-1
			for i := range args {
				if same && !paramCopy(args[i], ni.Params[i+1]) {
					same = false
				}
			}
			if same && fi.HoldsWhere(call.Block(), func(f Fact) bool {
				ff, _ := loadedField(f.V)
				return f.Kind == "nonnil" && f.Pol && sameVar(ff, parentFld)
			}) {
				ok = true
			}
		}
		why := "the parent store's indexes are not chained with identical arguments/holder"
		if ok {
			// on every path: no return without the chaining call unless the store has no parent, and the
			// parent context ends up in the Parent field of what is returned
			if !noPathAvoiding(ni, isChain, func(from, to *ssa.BasicBlock) bool {
				for f := range fi.edgeFacts(from, to) {
					ff, _ := loadedField(f.V)
					if f.Kind == "nonnil" && !f.Pol && sameVar(ff, parentFld) {
						return true
					}
				}
				return false
			}) {
				ok, why = false, "a return is reachable without creating the parent store's indexing context although a parent store exists (e.g. an early return): creates and updates through this store then skip the parent's indexes and constraints"
			}
			stored := false
			for _, b := range ni.Blocks {
				for _, in := range b.Instrs {
					if st, isSt := in.(*ssa.Store); isSt {
						if f, _ := fieldOfAddr(st.Addr); sameVar(f, icParent) {
							for _, sv := range phiLeaves(st.Val) {
								if k, isCall := sv.(*ssa.Call); isCall && isChain(k) {
									stored = true
								}
							}
						}
					}
				}
			}
			if ok && !stored {
				ok, why = false, "the parent store's indexing context is created but not stored in the Parent field"
			}
		}
		c.Check(ok, rule, FnName(ni), p.Pos(ni.Pos()), "a parent indexing context is created iff a parent store exists (on every returning path), by the same constructor with the same context, id and error holder, and becomes the Parent of the result", why)
	}
	// GetParentContext: field forwarding table
	gp := p.SSAFunc(p.Method("boltz", "PersistContext", "GetParentContext"))
	c.Analysed(FnName(gp))
	pc := p.Named("boltz", "PersistContext")
	want := map[string]bool{"MutateContext": false, "Id": false, "FieldChecker": false, "IsCreate": false}
	for _, b := range gp.Blocks {
		for _, in := range b.Instrs {
			st, isSt := in.(*ssa.Store)
			if !isSt {
				continue
			}
			f, base := fieldOfAddr(st.Addr)
			if f == nil || namedOf(base.Type()) != pc {
				continue
			}
			if _, fresh := base.(*ssa.Alloc); !fresh {
				continue
			}
			if sf, sbase := loadedField(st.Val); sf != nil && sf.Name() == f.Name() && sbase == ssa.Value(gp.Params[0]) {
				if _, tracked := want[f.Name()]; tracked {
					want[f.Name()] = true
				}
			}
		}
	}
	var missing []string
	for k, v := range want {
		if !v {
			missing = append(missing, k)
		}
	}
	c.Check(len(missing) == 0, rule, FnName(gp)+": forwards", p.Pos(gp.Pos()), "the parent persist context carries the same mutate context, id, field checker and create flag", "the parent persist context does not forward: "+strings.Join(missing, ", ")+" (a field-restricted update through the child store would then rewrite all shared fields)")
	// shares the child's holder into the fresh parent bucket (direction checked by C07.HOLDERPTR as well)
	h := newHolderInfo(c)
	shared := false
	for _, b := range gp.Blocks {
		for _, in := range b.Instrs {
			if st, isSt := in.(*ssa.Store); isSt {
				if f, _ := fieldOfAddr(st.Addr); f != nil && f.Embedded() && namedOf(f.Type()) == h.holderImpl {
					if sf, sb := loadedField(st.Val); sf != nil && sf.Embedded() {
						if bf, bb := loadedField(sb); bf != nil && bf.Name() == "Bucket" && bb == ssa.Value(gp.Params[0]) {
							shared = true
						}
					}
				}
			}
		}
	}
	c.Check(shared, rule, FnName(gp)+": shares error holder", p.Pos(gp.Pos()), "errors recorded while persisting the shared fields land in the child's error holder", "the parent bucket does not inherit the child's error holder: failures on shared fields are lost")
	c.Floor(rule, 3)
}

// ================================ C16 ===========================================================

func ruleC16WriteOnce(c *Ctx) {
	p := c.P
	cg := p.CallGraph()
	fieldName := ""
	if k, ok := p.Obj("boltz", "FieldIsSystemEntity").(*types.Const); ok {
		fieldName = constant.StringVal(k.Val())
	}
	isCreate := p.Field("boltz", "PersistContext", "IsCreate")
	n := 0
	for _, fn := range c.prodFuncs("boltz") {
		for _, call := range callsIn(fn) {
			cal, _ := calleeOf(call.Common())
			if cal == nil || !(strings.HasPrefix(cal.Name(), "Set") || strings.HasPrefix(cal.Name(), "Put") || strings.HasPrefix(cal.Name(), "GetAndSet")) {
				continue
			}
			isFlag := false
			for _, a := range call.Common().Args {
				if s, ok := constString(a); ok && s == fieldName {
					isFlag = true
				}
			}
			if !isFlag {
				continue
			}
			n++
			name := FnName(fn)
			c.Analysed(name)
			// every caller of fn holds ctx.IsCreate == true at the call (or fn itself does)
			fi := ComputeFacts(fn)
			holdsCreate := func(fi *FactInfo, b *ssa.BasicBlock) bool {
				return fi.HoldsWhere(b, func(f Fact) bool {
					ff, _ := loadedField(f.V)
					return f.Kind == "true" && f.Pol && sameVar(ff, isCreate)
				})
			}
			ok := holdsCreate(fi, call.Block())
			why := ""
			if !ok {
				// every chain of callers that reaches fn passes an edge on which ctx.IsCreate is established
				// (helpers between the dispatch and the write — phases, value carriers — are looked through)
				var reachedOnlyOnCreate func(f *ssa.Function, depth int) (bool, string)
				reachedOnlyOnCreate = func(f *ssa.Function, depth int) (bool, string) {
					callers := 0
					for _, caller := range cg.callers[f] {
						cfi := factsOf(caller)
						for _, k := range callsIn(caller) {
							if kc, _ := calleeOf(k.Common()); kc == nil || kc != f.Object() {
								continue
							}
							callers++
							if holdsCreate(cfi, k.Block()) {
								continue
							}
							if depth >= 4 {
								return false, FnName(caller) + " reaches it without ctx.IsCreate being established"
							}
							if okUp, whyUp := reachedOnlyOnCreate(caller, depth+1); !okUp {
								if whyUp == "" {
									whyUp = FnName(caller) + " reaches it without ctx.IsCreate being established"
								}
								return false, whyUp
							}
						}
					}
					if callers == 0 {
						// exported and not called inside the library: it is the documented create-only helper
						// when its name says so; anything else is a new writer
						if f.Object() != nil && f.Object().Exported() && f.Name() == "CreateBaseValues" {
							return true, ""
						}
						return false, FnName(f) + " reaches it without ctx.IsCreate being established (and is not the documented create-only entry point)"
					}
					return true, ""
				}
				ok, why = reachedOnlyOnCreate(fn, 0)
			}
			c.Check(ok, "C16.WRITEONCE", name+": writes "+fieldName, p.Pos(call.Pos()), "the system flag is written only under ctx.IsCreate (create path)", "the system flag can be written on a path that is not the create path: "+why+" — an update could turn an ordinary entity into a system entity or back")
			// ... and only ever as true: the create path also runs for the parent part of an entity that
			// already exists (a child store created on top of it); writing false there would turn a system
			// entity into an ordinary one, from whatever context
			var flagVal ssa.Value
			for _, a := range call.Common().Args {
				if b, isB := a.Type().Underlying().(*types.Basic); isB && b.Kind() == types.Bool {
					flagVal = a
				}
			}
			if flagVal != nil {
				onlyTrue := false
				if k, isK := flagVal.(*ssa.Const); isK && k.Value != nil && k.Value.Kind() == constant.Bool && constant.BoolVal(k.Value) {
					onlyTrue = true
				}
				if !onlyTrue {
					cv := fi.canon(flagVal)
					onlyTrue = fi.HoldsWhere(call.Block(), func(f Fact) bool {
						if f.Kind != "true" || !f.Pol {
							return false
						}
						if f.V == flagVal || fi.canon(f.V) == cv {
							return true
						}
						// two loads of the same field of the same object
						f1, b1 := loadedField(f.V)
						f2, b2 := loadedField(flagVal)
						return f1 != nil && sameVar(f1, f2) && b1 == b2
					})
				}
				c.Check(onlyTrue, "C16.WRITEONCE", name+": value written to "+fieldName, p.Pos(call.Pos()), "the flag is only ever written as true", "the system flag is written with a value that may be false: where the create path runs over an entity that already exists (the parent part of a child-store create) a stored true is overwritten, and the system entity becomes an ordinary one")
			}
		}
	}
	c.Floor("C16.WRITEONCE", 1)
	// UpdateBaseValues never touches it (covered above: no site); SetBaseValues dispatches on IsCreate
	sb := p.SSAFunc(p.Method("boltz", "BaseExtEntity", "SetBaseValues"))
	c.Analysed(FnName(sb))
	fi := ComputeFacts(sb)
	okD := true
	for _, call := range callsIn(sb) {
		cal, _ := calleeOf(call.Common())
		if cal == nil {
			continue
		}
		hasT := fi.HoldsWhere(call.Block(), func(f Fact) bool {
			ff, _ := loadedField(f.V)
			return f.Kind == "true" && f.Pol && sameVar(ff, isCreate)
		})
		hasF := fi.HoldsWhere(call.Block(), func(f Fact) bool {
			ff, _ := loadedField(f.V)
			return f.Kind == "true" && !f.Pol && sameVar(ff, isCreate)
		})
		if cal.Name() == "CreateBaseValues" && !hasT {
			okD = false
		}
		if cal.Name() == "UpdateBaseValues" && !hasF {
			okD = false
		}
	}
	c.Check(okD, "C16.WRITEONCE", FnName(sb), p.Pos(sb.Pos()), "create values are written exactly on the IsCreate edge, update values on the other", "SetBaseValues does not dispatch strictly on ctx.IsCreate")
}

// c16Hooks: the three hooks of the system-entity constraint.  The rules below look at each hook as a
// whole (its unexported helpers are expanded by the normalisation pass), so they do not depend on how the
// decision is split between the hooks and a helper.
func c16Hooks(c *Ctx) []*ssa.Function {
	p := c.P
	return []*ssa.Function{
		p.SSAFunc(p.Method("boltz", "systemEntityConstraint", "ProcessBeforeUpdate")),
		p.SSAFunc(p.Method("boltz", "systemEntityConstraint", "ProcessAfterUpdate")),
		p.SSAFunc(p.Method("boltz", "systemEntityConstraint", "ProcessBeforeDelete")),
	}
}

// ruleC16Hooks: complete decision table of each hook over (is-create, flag absent, flag value, system
// context): a refusal is recorded in the error holder on exactly these rows —
//
//	ProcessBeforeUpdate: not a create, flag set, ordinary context (the update is checked against the
//	                     STORED flag, before anything is persisted)
//	ProcessAfterUpdate:  a create, flag set, ordinary context (after the persist the flag is readable)
//	ProcessBeforeDelete: flag set, ordinary context
func ruleC16Hooks(c *Ctx) {
	p := c.P
	isCreate := p.Field("boltz", "IndexingContext", "IsCreate")
	toBool := p.Func("boltz", "FieldToBool")
	want := []func(create bool) bool{
		func(create bool) bool { return !create },
		func(create bool) bool { return create },
		func(create bool) bool { return true },
	}
	for hi, fn := range c16Hooks(c) {
		name := FnName(fn)
		c.Analysed(name)
		ok, why, rows := true, "", 0
		undecided := ""
		for _, create := range []bool{true, false} {
			for _, flagNil := range []bool{true, false} {
				for _, flag := range []bool{true, false} {
					for _, sys := range []bool{true, false} {
						rows++
						oracle := func(v ssa.Value) (AV, bool) {
							if call, isCall := v.(*ssa.Call); isCall {
								if isCallTo(call, toBool) {
									if flagNil {
										return AV{Kind: "nil"}, true
									}
									return AV{Kind: "nonnil"}, true
								}
								if invokeNamed(call, "IsSystemContext") {
									return avBool(sys), true
								}
								if cal, _ := calleeOf(call.Common()); cal != nil && isErrorCtor(cal) {
									return AV{Kind: "nonnil"}, true
								}
							}
							if u, isU := v.(*ssa.UnOp); isU && u.Op == token.MUL {
								if k, isCall := u.X.(*ssa.Call); isCall && isCallTo(k, toBool) {
									return avBool(flag), true
								}
								if f, _ := loadedField(u); sameVar(f, isCreate) {
									return avBool(create), true
								}
							}
							return AV{}, false
						}
						evs, err := DecideCalls(fn, oracle, func(ci ssa.CallInstruction) bool { return invokeNamed(ci, "SetError") })
						if err != "" {
							undecided = err
							continue
						}
						refused := false
						for _, ev := range evs {
							// SetError(nil) records nothing
							if n := len(ev.Args); n > 0 && ev.Args[n-1].Kind == "nil" {
								continue
							}
							refused = true
						}
						wantRefused := want[hi](create) && !flagNil && flag && !sys
						if refused != wantRefused {
							ok = false
							why = fmt.Sprintf("isCreate=%v flagAbsent=%v flag=%v systemContext=%v: refusal recorded=%v, expected %v", create, flagNil, flag, sys, refused, wantRefused)
						}
					}
				}
			}
		}
		if ok && undecided != "" {
			c.Undecided("C16.HOOKS", name, p.Pos(fn.Pos()), "the hook's decision could not be evaluated row by row: "+undecided)
			continue
		}
		c.Check(ok, "C16.HOOKS", name, p.Pos(fn.Pos()), fmt.Sprintf("records a refusal exactly when the operation is the one this hook guards, the flag is set and the context is not a system context (%d rows)", rows), why)
	}
	c.Floor("C16.HOOKS", 3)
}

// ruleC16Decide: the flag each hook decides on is the STORED system flag as the store's flag symbol
// evaluates it for the row (for a child store that is the parent's bucket, where the flag lives) —
// FieldToBool applied to what the symbol's Eval returns for (ctx.Tx(), ctx.RowId).
func ruleC16Decide(c *Ctx) {
	p := c.P
	toBool := p.Func("boltz", "FieldToBool")
	rowId := p.Field("boltz", "IndexingContext", "RowId")
	entSym := p.Iface("boltz", "EntitySymbol")
	for _, fn := range c16Hooks(c) {
		name := FnName(fn)
		ok, why, n := true, "", 0
		// the hook itself and the helpers of its package it hands its own constraint and context on to
		// (a predicate that could not be expanded in place because it is an operand of && / ||)
		calls := callsIn(fn)
		seenFn := map[*ssa.Function]bool{fn: true}
		var follow func(from *ssa.Function, depth int)
		follow = func(from *ssa.Function, depth int) {
			for _, call := range callsIn(from) {
				sc := call.Common().StaticCallee()
				if sc == nil || sc.Blocks == nil || sc.Pkg != fn.Pkg || seenFn[sc] || depth > 2 {
					continue
				}
				passesOwn := len(call.Common().Args) > 0
				for _, a := range call.Common().Args {
					if _, isPrm := a.(*ssa.Parameter); !isPrm {
						passesOwn = false
					}
				}
				if !passesOwn {
					continue
				}
				seenFn[sc] = true
				c.Analysed(FnName(sc))
				calls = append(calls, callsIn(sc)...)
				follow(sc, depth+1)
			}
		}
		follow(fn, 0)
		for _, call := range calls {
			if !isCallTo(call, toBool) {
				continue
			}
			n++
			args := call.Common().Args
			if len(args) != 2 {
				ok, why = false, "unexpected FieldToBool call"
				continue
			}
			e0, is0 := args[0].(*ssa.Extract)
			e1, is1 := args[1].(*ssa.Extract)
			if !is0 || !is1 || e0.Tuple != e1.Tuple || e0.Index != 0 || e1.Index != 1 {
				ok, why = false, "the flag value at "+p.Pos(call.Pos())+" is not the (type, value) pair of one symbol evaluation"
				continue
			}
			ev, isCall := e0.Tuple.(*ssa.Call)
			if !isCall || !ev.Call.IsInvoke() || ev.Call.Method.Name() != "Eval" || !types.Implements(ev.Call.Value.Type(), entSym) {
				ok, why = false, "the flag value at "+p.Pos(call.Pos())+" does not come from the flag symbol's Eval"
				continue
			}
			if f, _ := loadedField(ev.Call.Value); f == nil {
				ok, why = false, "the evaluated symbol at "+p.Pos(ev.Pos())+" is not the constraint's own flag symbol field"
			}
			if len(ev.Call.Args) != 2 {
				ok, why = false, "unexpected Eval call"
				continue
			}
			if f, _ := loadedField(ev.Call.Args[1]); !sameVar(f, rowId) {
				ok, why = false, "the symbol is evaluated at "+p.Pos(ev.Pos())+" for "+describeValue(ev.Call.Args[1])+", not for the row the operation is about (ctx.RowId)"
			}
		}
		if n == 0 {
			ok, why = false, "the hook does not read the stored flag through the flag symbol (no FieldToBool over the symbol's Eval): a flag read from the store's own entity bucket is absent for child stores, whose flag lives in the parent's bucket"
		}
		c.Check(ok, "C16.DECIDE", name, p.Pos(fn.Pos()), "the decision is taken on the stored flag as the flag symbol evaluates it for ctx.RowId", why)
	}
	c.Floor("C16.DECIDE", 3)
}

func ruleC16Context(c *Ctx) {
	p := c.P
	for _, w := range []struct {
		typ  string
		want bool
	}{{"mutateContext", false}, {"systemMutateContext", true}} {
		fn := p.SSAFunc(p.Method("boltz", w.typ, "IsSystemContext"))
		c.Analysed(FnName(fn))
		ok := true
		for _, r := range returnsOf(fn) {
			if b, isB := boolConst(r.Results[0]); !isB || b != w.want {
				ok = false
			}
		}
		c.Check(ok, "C16.CONTEXT", FnName(fn), p.Pos(fn.Pos()), fmt.Sprintf("constantly %v", w.want), fmt.Sprintf("does not constantly answer %v", w.want))
	}
	nc := p.SSAFunc(p.Func("boltz", "NewSystemMutateContext"))
	c.Analysed(FnName(nc))
	sysT := p.Named("boltz", "systemMutateContext")
	fi := ComputeFacts(nc)
	ok := true
	isSysFact := func(fs factSet) bool {
		for f := range fs {
			k, isCall := f.V.(*ssa.Call)
			if f.Kind == "true" && f.Pol && isCall && invokeNamed(k, "IsSystemContext") && k.Call.Value == ssa.Value(nc.Params[0]) {
				return true
			}
		}
		return false
	}
	var retOK func(v ssa.Value, fs factSet, depth int) bool
	retOK = func(v ssa.Value, fs factSet, depth int) bool {
		switch x := v.(type) {
		case *ssa.Parameter:
			return x == nc.Params[0] && isSysFact(fs)
		case *ssa.MakeInterface:
			return namedOf(x.X.Type()) == sysT
		case *ssa.Phi:
			if depth > 3 {
				return false
			}
			for i, e := range x.Edges {
				if !retOK(e, fi.outFacts(x.Block().Preds[i], x.Block()), depth+1) {
					return false
				}
			}
			return true
		}
		return false
	}
	for _, r := range returnsOf(nc) {
		if !retOK(r.Results[0], fi.At(r.Block()), 0) {
			ok = false
		}
	}
	c.Check(ok, "C16.CONTEXT", FnName(nc), p.Pos(nc.Pos()), "returns the context itself only if it already is a system context, otherwise a system wrapper", "NewSystemMutateContext can return a non-system context")
	// an ordinary context cannot be created as system by NewMutateContext
	nm := p.SSAFunc(p.Func("boltz", "NewMutateContext"))
	okN := true
	for _, r := range returnsOf(nm) {
		if mi, isMI := r.Results[0].(*ssa.MakeInterface); !isMI || namedOf(mi.X.Type()) != p.Named("boltz", "mutateContext") {
			okN = false
		}
	}
	c.Check(okN, "C16.CONTEXT", FnName(nm), p.Pos(nm.Pos()), "ordinary contexts are plain mutateContext values", "NewMutateContext does not return an ordinary context")
	c.Floor("C16.CONTEXT", 4)
}

// ================================ C17 ===========================================================

func ruleC17Lock(c *Ctx) {
	p := c.P
	dbFld := p.Field("boltz", "DbImpl", "db")
	var txEntries []*types.Func
	for _, m := range []string{"Update", "Batch", "View", "Begin", "Stats"} {
		txEntries = append(txEntries, p.ExtMethod(bboltPath, "DB", m))
	}
	dbImpl := p.Named("boltz", "DbImpl")
	n := 0
	ff := p.FuncFlow()
	isEntry := map[*types.Func]bool{}
	for _, e := range txEntries {
		isEntry[e] = true
	}
	// a use of the loaded handle that enters bbolt: receiver of an entry method, or an argument of a call
	// through a function value that stands for one ((*bbolt.DB).Update handed to a helper)
	entersBolt := func(load ssa.Value) (bool, string) {
		for _, r := range *load.Referrers() {
			// db.Update taken as a method value: the handle is bound HERE, whenever the value is called later
			if mc, isMC := r.(*ssa.MakeClosure); isMC {
				if bf, isFn := mc.Fn.(*ssa.Function); isFn {
					if m := methodOf(bf); m != nil && isEntry[m] {
						for _, bnd := range mc.Bindings {
							if bnd == load {
								return true, m.Name() + " (bound as a method value)"
							}
						}
					}
				}
				continue
			}
			call, ok := r.(ssa.CallInstruction)
			if !ok || call.Common().IsInvoke() {
				continue
			}
			cc := call.Common()
			if cal, _ := calleeOf(cc); cal != nil && isEntry[cal] && len(cc.Args) > 0 && cc.Args[0] == load {
				return true, cal.Name()
			}
			if cc.StaticCallee() == nil {
				for _, t := range ff.Resolve(cc.Value, 0) {
					if m := methodOf(t); m != nil && isEntry[m] {
						return true, m.Name()
					}
				}
			}
		}
		return false, ""
	}
	// where a closure is invoked (calls of values that may denote it)
	invocations := func(cl *ssa.Function) []ssa.CallInstruction {
		var out []ssa.CallInstruction
		for _, fn := range ff.funcs {
			for _, call := range callsIn(fn) {
				cc := call.Common()
				if cc.IsInvoke() || cc.StaticCallee() != nil {
					continue
				}
				for _, t := range ff.Resolve(cc.Value, 0) {
					if t == cl {
						out = append(out, call)
					}
				}
			}
		}
		return out
	}
	for _, fn := range c.prodFuncs("boltz") {
		for _, b := range fn.Blocks {
			for _, in := range b.Instrs {
				ld, ok := in.(*ssa.UnOp)
				if !ok || ld.Op != token.MUL {
					continue
				}
				f, base := loadedField(ld)
				if !sameVar(f, dbFld) {
					continue
				}
				enters, how := entersBolt(ld)
				if !enters {
					continue
				}
				n++
				c.Analysed(FnName(fn))
				held := false
				switch {
				case fn.Parent() == nil:
					held = isReceiver(fn, base) && lockHeldAt(p, fn, ld, "RLock", "RUnlock")
				default:
					// inside a closure: the lock must be held wherever the closure is invoked
					inv := invocations(fn)
					held = len(inv) > 0
					for _, call := range inv {
						if !lockHeldAt(p, call.Parent(), call, "RLock", "RUnlock") {
							held = false
						}
					}
				}
				c.Check(held, "C17.LOCK", FnName(fn)+": bbolt "+how, p.Pos(ld.Pos()), "the database handle is read and the transaction entered with reloadLock read-held (RLock before, deferred RUnlock)", "a bolt transaction is entered (or the handle read for it) without holding the reload read-lock: a concurrent restore can swap the database file underneath it")
			}
		}
	}
	_ = dbImpl
	c.Floor("C17.LOCK", 5)
	// self.db is assigned only in Open
	for i := 0; i < dbImpl.NumMethods(); i++ {
		fn := p.SSA.FuncValue(dbImpl.Method(i))
		if fn == nil || fn.Blocks == nil {
			continue
		}
		for _, b := range fn.Blocks {
			for _, in := range b.Instrs {
				if st, ok := in.(*ssa.Store); ok {
					if f, _ := fieldOfAddr(st.Addr); sameVar(f, dbFld) {
						c.Check(fn.Name() == "Open", "C17.LOCK", FnName(fn)+": assigns db handle", p.Pos(st.Pos()), "the handle is (re)assigned only by Open", "the database handle is replaced outside Open")
					}
				}
			}
		}
	}
}

func ruleC17Restore(c *Ctx) { ruleRestoreSwap(c, "C17.RESTORE") }

func ruleRestoreSwap(c *Ctx, rule string) {
	p := c.P
	fn := p.SSAFunc(p.Method("boltz", "DbImpl", "RestoreFromReader"))
	name := FnName(fn)
	c.Analysed(name)
	closeM := p.Method("boltz", "DbImpl", "Close")
	openM := p.Method("boltz", "DbImpl", "Open")
	rename := p.ExtFunc("os", "Rename")
	var seq []ssa.CallInstruction
	var closeC, openC ssa.CallInstruction
	var renames []ssa.CallInstruction
	for _, call := range callsIn(fn) {
		switch {
		case isCallTo(call, closeM):
			closeC = call
		case isCallTo(call, openM):
			openC = call
		case isCallTo(call, rename):
			renames = append(renames, call)
		}
	}
	ok := closeC != nil && openC != nil && len(renames) == 2
	why := "expected Close, two Renames and Open"
	if ok {
		seq = []ssa.CallInstruction{closeC, renames[0], renames[1], openC}
		// order by dominance
		if renames[1].Block().Dominates(renames[0].Block()) && renames[1].Block() != renames[0].Block() {
			seq[1], seq[2] = renames[1], renames[0]
		}
		for i := 1; i < len(seq); i++ {
			prev := seq[i-1]
			ri := reachWithout(fn, func(in ssa.Instruction) bool { return in == ssa.Instruction(prev) })
			if ri.Reaches(seq[i]) {
				ok, why = false, describeInstr(seq[i])+" can run before "+describeInstr(prev)
			}
		}
		// every return passes the whole sequence (failures panic)
		ri := reachWithout(fn, func(in ssa.Instruction) bool { return in == ssa.Instruction(openC) })
		for _, r := range returnsOf(fn) {
			if r.Block() == fn.Recover {
				continue
			}
			if ri.Reaches(r) {
				ok, why = false, "a return at "+p.Pos(r.Pos())+" is reachable without swapping in the snapshot (close, rename, rename, open): the restore silently does nothing on that path"
			}
		}
		// under the write lock
		for _, s := range seq {
			if !lockHeldAt(p, fn, s, "Lock", "Unlock") {
				ok, why = false, describeInstr(s)+" is not performed under reloadLock.Lock()"
			}
		}
		// the second rename moves the snapshot onto the database path
		_ = seq
	}
	c.Check(ok, rule, name, p.Pos(fn.Pos()), "close < rename(db→previous) < rename(snapshot→db) < open, under the write lock, on every returning path", why)
	// listeners start after Open
	okL := true
	nGo := 0
	if openC != nil {
		ri := reachWithout(fn, func(in ssa.Instruction) bool { return in == ssa.Instruction(openC) })
		for _, call := range callsIn(fn) {
			if g, isGo := call.(*ssa.Go); isGo {
				nGo++
				if ri.Reaches(g) {
					okL = false
				}
			}
		}
	}
	c.Check(okL && nGo >= 1, rule, name+": listeners", p.Pos(fn.Pos()), "restore listeners are started only after the new database is open", "restore listeners can fire before the new database is open (or never)")
	c.Floor(rule, 2)
}

func ruleC17Snapshot(c *Ctx) {
	p := c.P
	// Snapshot calls SnapshotInTx inside self.View
	sn := p.SSAFunc(p.Method("boltz", "DbImpl", "Snapshot"))
	c.Analysed(FnName(sn))
	view := p.Method("boltz", "DbImpl", "View")
	inTx := p.Method("boltz", "DbImpl", "SnapshotInTx")
	ok := false
	for _, call := range callsIn(sn) {
		if isCallTo(call, view) {
			if cl := anonFromArg(call.Common().Args[1]); cl != nil {
				for _, k := range callsIn(cl) {
					if isCallTo(k, inTx) && k.Common().Args[1] == ssa.Value(cl.Params[0]) {
						ok = true
					}
				}
			}
		}
	}
	c.Check(ok, "C17.SNAPSHOT", FnName(sn), p.Pos(sn.Pos()), "the copy is taken inside a read transaction (consistent committed state)", "Snapshot does not copy inside a View transaction")
	// SnapshotInTx copies with the given tx and removes the copy when marking fails
	st := p.SSAFunc(inTx)
	c.Analysed(FnName(st))
	copyFile := p.ExtMethod(bboltPath, "Tx", "CopyFile")
	mark := p.Method("boltz", "DbImpl", "MarkAsSnapshot")
	var cp, mk ssa.CallInstruction
	for _, call := range callsIn(st) {
		if isCallTo(call, copyFile) && call.Common().Args[0] == ssa.Value(st.Params[1]) {
			cp = call
		}
		if isCallTo(call, mark) {
			mk = call
		}
	}
	okS := cp != nil && mk != nil
	if okS {
		ri := reachWithout(st, func(in ssa.Instruction) bool { return in == ssa.Instruction(cp) })
		if ri.Reaches(mk) {
			okS = false
		}
	}
	c.Check(okS, "C17.SNAPSHOT", FnName(st), p.Pos(st.Pos()), "copies through the caller's transaction, then marks the copy", "the snapshot is not copied from the given transaction before being marked")
	// MarkAsSnapshot: snapshot id + reset flag in one Update closure, returning the bucket's error
	ms := p.SSAFunc(mark)
	c.Analysed(FnName(ms))
	okM := false
	whyM := "the snapshot copy is not marked with both snapshot id and reset flag in one transaction"
	for _, a := range ms.AnonFuncs {
		var sid, reset bool
		for _, call := range callsIn(a) {
			cal, _ := calleeOf(call.Common())
			if cal == nil {
				continue
			}
			for _, arg := range call.Common().Args {
				if s, isS := constString(arg); isS {
					if cal.Name() == "SetString" && s == constStr(p, "SnapshotId") {
						sid = true
					}
					if cal.Name() == "SetBool" && s == constStr(p, "ResetTimeline") {
						if b, isB := boolConst(call.Common().Args[2]); isB && b {
							reset = true
						}
					}
				}
			}
		}
		if sid && reset {
			// ... both on every path of that transaction: a marker written only under a condition on the copied
			// data (the database already has a timeline id, say) leaves some snapshots without it
			writes := func(method, key string) func(ssa.Instruction) bool {
				return func(in ssa.Instruction) bool {
					call, isCall := in.(ssa.CallInstruction)
					if !isCall {
						return false
					}
					cal, _ := calleeOf(call.Common())
					if cal == nil || cal.Name() != method {
						return false
					}
					for _, arg := range call.Common().Args {
						if s, isS := constString(arg); isS && s == key {
							return true
						}
					}
					return false
				}
			}
			okM = noPathAvoiding(a, writes("SetString", constStr(p, "SnapshotId")), nil) && noPathAvoiding(a, writes("SetBool", constStr(p, "ResetTimeline")), nil)
			if !okM {
				whyM = "the snapshot id or the timeline-reset flag is written only on some paths of the marking transaction: a snapshot can be left without it (restoring it then keeps the old timeline)"
			}
		}
	}
	c.Check(okM, "C17.SNAPSHOT", FnName(ms), p.Pos(ms.Pos()), "snapshot id and timeline-reset flag are written in one transaction", whyM)
	c.Floor("C17.SNAPSHOT", 3)
}

func constStr(p *Prog, name string) string {
	if k, ok := p.Obj("boltz", name).(*types.Const); ok {
		return constant.StringVal(k.Val())
	}
	panic(anchorLost{"boltz." + name})
}

func ruleC17Timeline(c *Ctx) {
	p := c.P
	fn := p.SSAFunc(p.Method("boltz", "DbImpl", "GetTimelineId"))
	name := FnName(fn)
	c.Analysed(name)
	update := p.Method("boltz", "DbImpl", "Update")
	tl, rt := constStr(p, "TimelineId"), constStr(p, "ResetTimeline")
	// find the closure passed to self.Update containing the writes
	var wr *ssa.Function
	for _, call := range callsIn(fn) {
		if isCallTo(call, update) {
			wr = anonFromArg(call.Common().Args[2])
		}
	}
	if wr == nil {
		c.Bad("C17.TIMELINE", name, p.Pos(fn.Pos()), "no write transaction for the timeline id")
		return
	}
	c.Analysed(FnName(wr))
	_ = ComputeFacts
	named := func(call ssa.CallInstruction, method, key string) bool {
		cal, _ := calleeOf(call.Common())
		if cal == nil || cal.Name() != method {
			return false
		}
		for _, a := range call.Common().Args {
			if s, ok := constString(a); ok && s == key {
				return true
			}
		}
		return false
	}
	var readReset, readId *ssa.Call
	var setId, setReset ssa.CallInstruction
	for _, call := range callsIn(wr) {
		if named(call, "GetBoolWithDefault", rt) {
			readReset, _ = call.(*ssa.Call)
		}
		if named(call, "GetString", tl) {
			readId, _ = call.(*ssa.Call)
		}
		if named(call, "SetString", tl) {
			setId = call
		}
		if named(call, "SetBool", rt) {
			if b, ok := boolConst(call.Common().Args[2]); ok && !b {
				setReset = call
			}
		}
	}
	ok := readReset != nil && readId != nil && setId != nil && setReset != nil
	why := "the write transaction must read the reset flag and current id, decide, and write the new id and clear the flag — all inside the same transaction; otherwise two callers after a restore can both reset the timeline"
	// (that the write is decided from these reads is what the decision table below establishes: its oracle
	// answers exactly these two read calls of this closure)
	c.Check(ok, "C17.TIMELINE", name+": read-decide-write in one transaction", p.Pos(fn.Pos()), "reset flag and id are read, the decision is taken and the new id written inside the same write transaction", why)
	// idF is called exactly once, inside the write closure
	nId := 0
	for _, call := range callsIn(wr) {
		cc := call.Common()
		if !cc.IsInvoke() && cc.StaticCallee() == nil {
			sig := cc.Signature()
			if sig.Params().Len() == 0 && sig.Results().Len() == 2 {
				nId++
			}
		}
	}
	c.Check(nId == 1, "C17.TIMELINE", name+": one fresh id", p.Pos(fn.Pos()), "the id generator is invoked once per reset", fmt.Sprintf("the id generator is invoked %d times in the write transaction", nId))
	// the decision, as a complete table over (mode, reset flag stored, id stored): a new id is written (and
	// the flag cleared) exactly when the flag is set, the mode forces a reset, or the mode initialises an
	// empty database and no id is stored.  Decided on the write closure as a whole (the mode predicate is
	// expanded into it), so it does not depend on how the decision is split into helpers.
	okT, whyT := true, ""
	undecided := ""
	modeT := p.Named("boltz", "TimelineMode")
	rows := 0
	for _, mode := range []string{"TimelineModeDefault", "TimelineModeInitIfEmpty", "TimelineModeForceReset"} {
		mv := p.Obj("boltz", mode).(*types.Const).Val()
		for _, reset := range []bool{false, true} {
			for _, idNil := range []bool{true, false} {
				rows++
				oracle := func(v ssa.Value) (AV, bool) {
					switch x := v.(type) {
					case *ssa.UnOp:
						if x.Op == token.MUL {
							if _, isFV := x.X.(*ssa.FreeVar); isFV && namedOf(x.Type()) == modeT {
								return avConst(mv), true
							}
							if f, _ := fieldOfAddr(x.X); f != nil && isErrorType(f.Type()) {
								return AV{Kind: "nil"}, true
							}
							// the stored id's text (only logged / handed back)
							if pt, isP := x.X.Type().Underlying().(*types.Pointer); isP {
								if bt, isB := pt.Elem().Underlying().(*types.Basic); isB && bt.Kind() == types.String {
									if _, isAlloc := x.X.(*ssa.Alloc); !isAlloc {
										return AV{Kind: "sym", Sym: "storedId"}, true
									}
								}
							}
						}
					case *ssa.Parameter:
						if namedOf(x.Type()) == modeT {
							return avConst(mv), true
						}
					case *ssa.Call:
						if x == readReset {
							return avBool(reset), true
						}
						if x == readId {
							if idNil {
								return AV{Kind: "nil"}, true
							}
							return AV{Kind: "nonnil"}, true
						}
						if invokeNamed(x, "HasError") {
							return avBool(false), true
						}
						if invokeNamed(x, "GetError") {
							return AV{Kind: "nil"}, true
						}
						if cc := x.Common(); !cc.IsInvoke() && cc.StaticCallee() == nil {
							if _, isBuiltin := cc.Value.(*ssa.Builtin); !isBuiltin && cc.Signature().Results().Len() == 2 {
								return AV{Kind: "tuple", Tup: []AV{{Kind: "sym", Sym: "freshId"}, {Kind: "nil"}}}, true
							}
						}
						if cal, _ := calleeOf(x.Common()); cal != nil && cal.Name() == "GetOrCreatePath" {
							return AV{Kind: "nonnil"}, true
						}
					}
					return AV{}, false
				}
				evs, err := DecideCalls(wr, oracle, func(ci ssa.CallInstruction) bool { return ci == setId || ci == setReset })
				if err != "" {
					undecided = err
					continue
				}
				wrote, cleared := false, false
				for _, ev := range evs {
					if ev.Call == setId {
						wrote = true
					}
					if ev.Call == setReset {
						cleared = true
					}
				}
				want := reset || mode == "TimelineModeForceReset" || (mode == "TimelineModeInitIfEmpty" && idNil)
				if wrote != want || cleared != want {
					okT, whyT = false, fmt.Sprintf("%s resetFlag=%v idStored=%v: new id written=%v flag cleared=%v, expected %v", mode, reset, !idNil, wrote, cleared, want)
				}
			}
		}
	}
	if ok {
		if okT && undecided != "" {
			c.Undecided("C17.TIMELINE", name+": decision table", p.Pos(wr.Pos()), "the write transaction could not be evaluated row by row: "+undecided)
		} else {
			c.Check(okT, "C17.TIMELINE", name+": decision table", p.Pos(wr.Pos()), fmt.Sprintf("a new id is written and the reset flag cleared exactly when the flag is set, the mode forces a reset, or the mode initialises an empty database and no id is stored (%d rows)", rows), whyT)
		}
	}
	c.Floor("C17.TIMELINE", 3)
}

// ruleC17NoCache: GetSnapshotId answers from the database on every call; nothing reachable from it
// (or from the restore) keeps database-derived state in DbImpl fields, where a concurrent restore
// could leave it stale.
func ruleC17NoCache(c *Ctx) {
	p := c.P
	fn := p.SSAFunc(p.Method("boltz", "DbImpl", "GetSnapshotId"))
	name := FnName(fn)
	c.Analysed(name)
	view := p.Method("boltz", "DbImpl", "View")
	_ = ComputeFacts
	ri := reachWithout(fn, func(in ssa.Instruction) bool { return isCallTo(in, view) })
	ok := true
	for _, r := range returnsOf(fn) {
		if ri.ReachesSuccess(r, 1) {
			ok = false
		}
	}
	c.Check(ok, "C17.NOCACHE", name, p.Pos(fn.Pos()), "every answer is read from the database inside a read transaction", "a snapshot id can be answered without reading the database (cached value): after a restore the reported id may be stale")
	// DbImpl fields are written only by Open and the listener registrations
	dbImpl := p.Named("boltz", "DbImpl")
	allowed := map[string]bool{"Open": true, "AddTxCompleteListener": true, "AddRestoreListener": true}
	mutators := map[string]bool{"Store": true, "Swap": true, "CompareAndSwap": true, "Put": true, "Append": true, "Delete": true, "Clear": true}
	for i := 0; i < dbImpl.NumMethods(); i++ {
		m := p.SSA.FuncValue(dbImpl.Method(i))
		if m == nil || m.Blocks == nil || allowed[m.Name()] {
			continue
		}
		bad := ""
		for _, f := range allFuncsWithAnon(m) {
			for _, b := range f.Blocks {
				for _, in := range b.Instrs {
					switch x := in.(type) {
					case *ssa.Store:
						if _, base := fieldOfAddr(x.Addr); base != nil && namedOf(base.Type()) == dbImpl {
							bad = "store at " + p.Pos(x.Pos())
						}
					case ssa.CallInstruction:
						cal, _ := calleeOf(x.Common())
						if cal != nil && !x.Common().IsInvoke() && len(x.Common().Args) > 0 && mutators[cal.Name()] {
							if fa, isFA := x.Common().Args[0].(*ssa.FieldAddr); isFA && namedOf(fa.X.Type()) == dbImpl {
								bad = "call " + cal.Name() + " at " + p.Pos(x.Pos())
							}
						}
					}
				}
			}
		}
		c.Check(bad == "", "C17.NOCACHE", FnName(m)+": no DbImpl state", p.Pos(m.Pos()), "does not write any DbImpl field", "writes a DbImpl field ("+bad+"): database-derived state kept outside the database is not swapped by a restore")
	}
}

// ruleC08Actions: the commit-action and pre-commit-action lists are only ever appended to by their
// Add methods; nothing else rewrites or clears them (the commit hook reads them asynchronously).
func ruleC08Actions(c *Ctx) {
	p := c.P
	for _, w := range []struct{ fld, adder string }{{"commitActions", "AddCommitAction"}, {"preCommitActions", "AddPreCommitAction"}} {
		fld := p.Field("boltz", "mutateContext", w.fld)
		n := 0
		for _, fn := range c.prodFuncs("boltz") {
			for _, b := range fn.Blocks {
				for _, in := range b.Instrs {
					st, ok := in.(*ssa.Store)
					if !ok {
						continue
					}
					// the field itself, or a part of it (the list wrapped in a small struct of its own)
					within := func(addr ssa.Value) bool {
						for i := 0; i < 4 && addr != nil; i++ {
							fa, isFA := addr.(*ssa.FieldAddr)
							if !isFA {
								return false
							}
							if f, _ := fieldOfAddr(fa); sameVar(f, fld) {
								return true
							}
							if st0, isSt := derefType(fa.X.Type()).Underlying().(*types.Struct); isSt && sameVar(st0.Field(fa.Field), fld) {
								return true
							}
							addr = fa.X
						}
						return false
					}
					if !within(st.Addr) {
						continue
					}
					n++
					okW := fn.Name() == w.adder
					if okW {
						// the new value is append(old, x)
						call, isCall := st.Val.(*ssa.Call)
						okW = false
						if isCall {
							if bi, isB := call.Call.Value.(*ssa.Builtin); isB && bi.Name() == "append" {
								if ld, isLd := call.Call.Args[0].(*ssa.UnOp); isLd && ld.Op == token.MUL && within(ld.X) {
									okW = true
								}
							}
						}
					}
					c.Check(okW, "C08.ACTIONS", FnName(fn)+": writes "+w.fld, p.Pos(st.Pos()), "only "+w.adder+" extends the list by appending", "the list of "+w.fld+" is rewritten outside "+w.adder+" (the commit hook may still be reading it, and queued work of a committed transaction is lost)")
				}
			}
		}
		if n == 0 {
			c.Bad("C08.ACTIONS", "boltz.mutateContext."+w.fld, "-", "no writer found")
		}
	}
}

// ruleCtxIdentity: the lists of pre-commit and commit actions live in the context object the transaction
// was started with (Db.Update runs and registers the hook on exactly those).  A context derived from it
// (UpdateContext, GetSystemContext, a system wrapper) must be that object or forward to it: no function that
// already has a context in hand creates another holder of action lists.
func ruleCtxIdentity(c *Ctx, rule string) {
	p := c.P
	holder := p.Named("boltz", "mutateContext")
	mcIface := p.Iface("boltz", "MutateContext")
	n := 0
	for _, fn := range c.prodFuncs("boltz") {
		var allocs []*ssa.Alloc
		for _, b := range fn.Blocks {
			for _, in := range b.Instrs {
				if al, ok := in.(*ssa.Alloc); ok && namedOf(al.Type()) == holder {
					if _, isPtrToNamed := derefType(al.Type()).(*types.Named); isPtrToNamed {
						allocs = append(allocs, al)
					}
				}
			}
		}
		if len(allocs) == 0 {
			continue
		}
		n++
		c.Analysed(FnName(fn))
		derived := ""
		for _, prm := range fn.Params {
			if namedOf(prm.Type()) == holder {
				derived = "it already has the context " + prm.Name()
			} else if it, isI := prm.Type().Underlying().(*types.Interface); isI && types.Identical(it, mcIface) {
				derived = "it is given the context " + prm.Name()
			}
		}
		c.Check(derived == "", rule, FnName(fn)+": creates a context", p.Pos(allocs[0].Pos()), "a context (holder of the action lists) is created only from scratch, never from another context",
			"this function creates a new holder of pre-commit/commit action lists although "+derived+": actions registered through the derived context are appended to lists the running transaction never looks at (a failing pre-commit action does not abort, a commit action never runs)")
	}
	c.CallSites(n)
	c.Floor(rule, 1)
}

// ruleC08OwnFilter: every listener registration stores its OWN change-type list (a fresh slice),
// never the caller's variadic slice extended in place.
func ruleC08OwnFilter(c *Ctx) {
	p := c.P
	for _, m := range []string{"AddEntityEventListener", "AddEntityEventListenerF", "AddListener", "AddEntityIdListener"} {
		fn := p.SSAFunc(p.Method("boltz", "BaseStore", m))
		name := FnName(fn)
		c.Analysed(name)
		ok, n := true, 0
		for _, b := range fn.Blocks {
			for _, in := range b.Instrs {
				st, isSt := in.(*ssa.Store)
				if !isSt {
					continue
				}
				f, _ := fieldOfAddr(st.Addr)
				if f == nil || f.Name() != "changeTypes" {
					continue
				}
				n++
				call, isCall := st.Val.(*ssa.Call)
				fresh := false
				if isCall {
					if bi, isB := call.Call.Value.(*ssa.Builtin); isB && bi.Name() == "append" {
						if sl, isSl := call.Call.Args[0].(*ssa.Slice); isSl {
							if _, isAlloc := sl.X.(*ssa.Alloc); isAlloc {
								fresh = true
							}
						}
					}
				}
				if !fresh {
					ok = false
				}
			}
		}
		c.Check(ok && n > 0, "C08.OWNFILTER", name, p.Pos(fn.Pos()), "the adapter's change-type list is built by appending to a fresh slice", "the adapter keeps the caller's variadic slice (appended in place): two registrations sharing one slice overwrite each other's filter")
	}
}

// ruleC15DeleteWhere: DeleteWhere evaluates the filter on the store it was called on (so a child
// store only sees entities with child data) and deletes id by id through the store implementation.
func ruleC15DeleteWhere(c *Ctx) {
	p := c.P
	fn := p.SSAFunc(p.Method("boltz", "BaseStore", "DeleteWhere"))
	name := FnName(fn)
	c.Analysed(name)
	var q, d ssa.CallInstruction
	delegated := false
	for _, call := range callsIn(fn) {
		if cal, _ := calleeOf(call.Common()); cal != nil && cal.Name() == "QueryIds" && !call.Common().IsInvoke() && call.Common().Args[0] == ssa.Value(fn.Params[0]) {
			q = call
		}
		if invokeNamed(call, "DeleteById") {
			d = call
		}
		if invokeNamed(call, "DeleteWhere") {
			delegated = true
		}
	}
	ok := q != nil && d != nil && !delegated
	if ok {
		ri := reachWithout(fn, func(in ssa.Instruction) bool { return in == ssa.Instruction(q) })
		if ri.Reaches(d) {
			ok = false
		}
	}
	c.Check(ok, "C15.ROUTE", name, p.Pos(fn.Pos()), "the filter is evaluated by this store's own query (child-only filtering applies) before ids are deleted one by one", "DeleteWhere does not evaluate the filter on the store it was called on (e.g. delegates the whole call to the parent): plain parent entities matching the filter would be deleted through the child store")
}

// ruleC16NoEscalate: library code never manufactures a system context on its own.
func ruleC16NoEscalate(c *Ctx) {
	p := c.P
	n := 0
	for _, fn := range c.prodFuncs("boltz") {
		for _, call := range callsIn(fn) {
			cal, _ := calleeOf(call.Common())
			if cal == nil || (cal.Name() != "GetSystemContext" && cal.Name() != "NewSystemMutateContext") {
				continue
			}
			// allowed: the context types' own GetSystemContext implementations
			recv := namedOf(recvTypeOfFn(fn))
			if recv != nil && (recv.Obj().Name() == "mutateContext" || recv.Obj().Name() == "systemMutateContext") && fn.Name() == "GetSystemContext" {
				continue
			}
			n++
			c.Bad("C16.NOESCALATE", FnName(fn)+" -> "+cal.Name(), p.Pos(call.Pos()), "library code switches to a system context by itself: an operation started from an ordinary context (e.g. a cascading delete) can then change or delete system entities")
		}
	}
	if n == 0 {
		c.OK("C16.NOESCALATE", "boltz", "-", "no library function other than the context types' own GetSystemContext obtains a system context")
	}
}

func recvTypeOfFn(fn *ssa.Function) types.Type {
	if fn.Signature.Recv() != nil {
		return fn.Signature.Recv().Type()
	}
	return types.Typ[types.Invalid]
}

// ruleC08DeleteFlows: flow accounting in DeleteById.  Sources are the results of the
// processDeleteConstraints calls (the store's own flow and one per child store).  A flow is fired
// either directly (flow.fireEvents()) or by being put into a slice that is ranged over with
// elem.fireEvents().  Each source must have exactly one such firing mechanism, every fireEvents site
// must fire a collected flow, a ranging loop may be left early only with an error, and every
// successful return after the entity bucket was removed passes every mechanism.
func ruleC08DeleteFlows(c *Ctx) {
	p := c.P
	del := p.SSAFunc(p.Method("boltz", "BaseStore", "DeleteById"))
	name := FnName(del)
	c.Analysed(name)
	fi := factsOf(del)
	loops := loopsOf(del)
	flowT := p.Named("boltz", "entityChangeFlow")
	isFlowSlice := func(t types.Type) bool {
		switch x := t.Underlying().(type) {
		case *types.Slice:
			return namedOf(x.Elem()) == flowT
		case *types.Pointer:
			if a, ok := x.Elem().Underlying().(*types.Array); ok {
				return namedOf(a.Elem()) == flowT
			}
		}
		return false
	}
	// union-find over slice-like values
	parent := map[ssa.Value]ssa.Value{}
	var find func(v ssa.Value) ssa.Value
	find = func(v ssa.Value) ssa.Value {
		if parent[v] == nil || parent[v] == v {
			parent[v] = v
			return v
		}
		r := find(parent[v])
		parent[v] = r
		return r
	}
	union := func(a, b ssa.Value) {
		if a == nil || b == nil || !isFlowSlice(a.Type()) || !isFlowSlice(b.Type()) {
			return
		}
		parent[find(a)] = find(b)
	}
	// slices kept in a field of a local struct (a value object that carries them from one phase of the delete to
	// the next): the field is a variable like any other; structs copied whole share their fields' families
	allocRoot := map[*ssa.Alloc]*ssa.Alloc{}
	var rootOf func(a *ssa.Alloc) *ssa.Alloc
	rootOf = func(a *ssa.Alloc) *ssa.Alloc {
		if allocRoot[a] == nil || allocRoot[a] == a {
			allocRoot[a] = a
			return a
		}
		r := rootOf(allocRoot[a])
		allocRoot[a] = r
		return r
	}
	structAlloc := func(v ssa.Value) *ssa.Alloc {
		if ld, isLd := v.(*ssa.UnOp); isLd && ld.Op == token.MUL {
			v = ld.X
		}
		al, _ := v.(*ssa.Alloc)
		if al == nil {
			return nil
		}
		if _, isSt := derefType(al.Type()).Underlying().(*types.Struct); !isSt {
			return nil
		}
		return al
	}
	for _, b := range del.Blocks {
		for _, in := range b.Instrs {
			if st, isSt := in.(*ssa.Store); isSt {
				if dst := structAlloc(st.Addr); dst != nil && st.Addr == ssa.Value(dst) {
					for _, leaf := range phiLeaves(st.Val) {
						if src := structAlloc(leaf); src != nil && leaf != ssa.Value(src) {
							allocRoot[rootOf(dst)] = rootOf(src)
						}
					}
				}
			}
		}
	}
	type cellKeyT struct {
		a *ssa.Alloc
		f int
	}
	cells := map[cellKeyT]ssa.Value{}
	cellOf := func(base ssa.Value, f int, t types.Type) ssa.Value {
		al := structAlloc(base)
		if al == nil {
			return nil
		}
		k := cellKeyT{rootOf(al), f}
		if cells[k] == nil {
			cells[k] = &cellVal{t: t}
		}
		return cells[k]
	}
	for _, b := range del.Blocks {
		for _, in := range b.Instrs {
			switch x := in.(type) {
			case *ssa.UnOp:
				if fa, isFA := x.X.(*ssa.FieldAddr); isFA && x.Op == token.MUL && isFlowSlice(x.Type()) {
					union(x, cellOf(fa.X, fa.Field, x.Type()))
				}
			case *ssa.Field:
				if isFlowSlice(x.Type()) {
					union(x, cellOf(x.X, x.Field, x.Type()))
				}
			case *ssa.Store:
				if fa, isFA := x.Addr.(*ssa.FieldAddr); isFA && isFlowSlice(x.Val.Type()) && !isNilConst(x.Val) {
					union(x.Val, cellOf(fa.X, fa.Field, x.Val.Type()))
				}
			case *ssa.Phi:
				for _, e := range x.Edges {
					if !isNilConst(e) {
						union(x, e)
					}
				}
			case *ssa.Slice:
				union(x, x.X)
			case *ssa.Call:
				if bi, ok := x.Call.Value.(*ssa.Builtin); ok && bi.Name() == "append" {
					for _, a := range x.Call.Args {
						if !isNilConst(a) {
							union(x, a)
						}
					}
				}
			}
		}
	}
	// strip: the flow value behind interface conversions / phis of the same value
	var srcOf func(v ssa.Value, depth int) []ssa.Value
	srcOf = func(v ssa.Value, depth int) []ssa.Value {
		if depth > 5 {
			return []ssa.Value{v}
		}
		switch x := v.(type) {
		case *ssa.ChangeInterface:
			return srcOf(x.X, depth+1)
		case *ssa.MakeInterface:
			return srcOf(x.X, depth+1)
		case *ssa.Phi:
			var out []ssa.Value
			for _, e := range x.Edges {
				if !isNilConst(e) {
					out = append(out, srcOf(e, depth+1)...)
				}
			}
			return out
		}
		return []ssa.Value{v}
	}
	type source struct {
		call    ssa.CallInstruction
		val     ssa.Value
		direct  []ssa.CallInstruction
		storedF map[ssa.Value]bool
	}
	var sources []*source
	srcIdx := map[ssa.Value]*source{}
	for _, call := range callsIn(del) {
		cal, _ := calleeOf(call.Common())
		if cal == nil || cal.Name() != "processDeleteConstraints" {
			continue
		}
		cv, ok := call.(*ssa.Call)
		if !ok {
			continue
		}
		for _, r := range *cv.Referrers() {
			if ex, ok := r.(*ssa.Extract); ok && ex.Index == 0 {
				s := &source{call: call, val: ex, storedF: map[ssa.Value]bool{}}
				sources = append(sources, s)
				srcIdx[ex] = s
			}
		}
	}
	bad := func(why string) {
		c.Bad("C08.ONCE", name, p.Pos(del.Pos()), why)
	}
	if len(sources) < 2 {
		bad(fmt.Sprintf("expected the store's own and the child stores' processDeleteConstraints results as change flows, found %d", len(sources)))
		return
	}
	// stores of sources into slices
	for _, b := range del.Blocks {
		for _, in := range b.Instrs {
			st, ok := in.(*ssa.Store)
			if !ok {
				continue
			}
			ia, ok := st.Addr.(*ssa.IndexAddr)
			if !ok || !isFlowSlice(ia.X.Type()) {
				continue
			}
			for _, sv := range srcOf(st.Val, 0) {
				if s := srcIdx[sv]; s != nil {
					s.storedF[find(ia.X)] = true
				}
			}
		}
	}
	// fire sites
	type fireLoop struct {
		site ssa.CallInstruction
		loop *Loop
	}
	famLoops := map[ssa.Value][]fireLoop{}
	okAll := true
	for _, call := range callsIn(del) {
		if !invokeNamed(call, "fireEvents") {
			continue
		}
		recv := call.Common().Value
		matched := false
		if ld, ok := recv.(*ssa.UnOp); ok && ld.Op == token.MUL {
			if ia, ok := ld.X.(*ssa.IndexAddr); ok && isFlowSlice(ia.X.Type()) {
				l := innermostLoop(loops, call.Block())
				_, idxPhi := ia.Index.(*ssa.Phi)
				if l == nil {
					okAll = false
					bad("fireEvents on a slice element outside a loop at " + p.Pos(call.Pos()) + ": only one of the collected flows is fired")
				} else if bo, isBin := ia.Index.(*ssa.BinOp); !idxPhi && !(isBin && bo.Op == token.ADD) {
					okAll = false
					bad("fireEvents on a fixed slice element inside a loop at " + p.Pos(call.Pos()))
				} else {
					famLoops[find(ia.X)] = append(famLoops[find(ia.X)], fireLoop{call, l})
				}
				matched = true
			}
		}
		if !matched {
			for _, sv := range srcOf(recv, 0) {
				if s := srcIdx[sv]; s != nil {
					s.direct = append(s.direct, call)
					matched = true
					if l := innermostLoop(loops, call.Block()); l != nil && !l.Blocks[s.call.Block()] {
						okAll = false
						bad("a single change flow is fired inside a loop at " + p.Pos(call.Pos()) + " (more than once)")
					}
				}
			}
		}
		if !matched {
			okAll = false
			bad("fireEvents at " + p.Pos(call.Pos()) + " fires something that is not a change flow collected by this delete")
		}
	}
	ei := 0
	var delEntity ssa.Instruction
	for _, call := range callsIn(del) {
		if cal, _ := calleeOf(call.Common()); cal != nil && cal.Name() == "DeleteEntity" {
			delEntity = call
		}
	}
	for _, s := range sources {
		n := len(s.direct)
		for fam := range s.storedF {
			n += len(famLoops[fam])
			if len(famLoops[fam]) == 0 {
				okAll = false
				bad("the change flow of " + describeInstr(s.call) + " is collected into a slice that is never ranged over with fireEvents: its events are lost")
			}
		}
		if n != 1 {
			okAll = false
			bad(fmt.Sprintf("the change flow of %s has %d firing sites (exactly one expected: no events, or duplicate events, for that store)", describeInstr(s.call), n))
		}
		// must-pass on success after the removal
		if delEntity != nil {
			for _, d := range s.direct {
				ri := reachWithoutFrom(del, delEntity, func(in ssa.Instruction) bool { return in == ssa.Instruction(d) })
				for _, r := range returnsOf(del) {
					if ri.ReachesSuccess(r, ei) {
						okAll = false
						bad("a successful return at " + p.Pos(r.Pos()) + " is reachable after the entity was removed without " + describeInstr(d))
					}
				}
			}
		}
	}
	for _, fls := range famLoops {
		for _, fl := range fls {
			for b := range fl.loop.Blocks {
				for _, s := range b.Succs {
					if !fl.loop.Blocks[s] && b != fl.loop.Header && !edgeLeadsOnlyToFailure(fi, b, s, ei) {
						okAll = false
						bad("the loop that fires the collected flows can be left early at " + p.Pos(lastPos(b)) + " without an error")
					}
				}
			}
			if delEntity != nil {
				hdr := fl.loop.Header
				ri := reachWithoutFrom(del, delEntity, func(in ssa.Instruction) bool { return in.Block() == hdr })
				for _, r := range returnsOf(del) {
					if ri.ReachesSuccess(r, ei) {
						okAll = false
						bad("a successful return at " + p.Pos(r.Pos()) + " is reachable after the entity was removed without firing the collected flows")
					}
				}
			}
		}
	}
	if okAll {
		c.OK("C08.ONCE", name, p.Pos(del.Pos()), fmt.Sprintf("%d change-flow sources, each fired by exactly one mechanism (direct call or ranged slice), on every successful path after the removal", len(sources)))
	}
}

// phiLeaves: the values a (possibly phi-joined) value can stand for.
func phiLeaves(v ssa.Value) []ssa.Value {
	var out []ssa.Value
	seen := map[ssa.Value]bool{}
	var walk func(x ssa.Value)
	walk = func(x ssa.Value) {
		if x == nil || seen[x] {
			return
		}
		seen[x] = true
		if phi, ok := x.(*ssa.Phi); ok {
			for _, e := range phi.Edges {
				walk(e)
			}
			return
		}
		out = append(out, x)
	}
	walk(v)
	return out
}

// ruleListenerRegistered: a registration function adds the listener it is given on every path: every
// return has passed an Append of that very parameter to the listener collection (registration is not
// made conditional on anything — two distinct closures can share one code pointer).
func ruleListenerRegistered(c *Ctx, rule, method, field string) {
	p := c.P
	fn := p.SSAFunc(p.Method("boltz", "DbImpl", method))
	name := FnName(fn)
	c.Analysed(name)
	fld := p.Field("boltz", "DbImpl", field)
	isAppend := func(in ssa.Instruction) bool {
		call, ok := in.(ssa.CallInstruction)
		if !ok {
			return false
		}
		cal, _ := calleeOf(call.Common())
		if cal == nil || cal.Name() != "Append" {
			return false
		}
		args := call.Common().Args
		if len(args) < 2 {
			return false
		}
		if f, _ := fieldOfAddr(args[0]); !sameVar(f, fld) {
			if f2, _ := loadedField(args[0]); !sameVar(f2, fld) {
				return false
			}
		}
		// the appended value is the listener parameter (possibly boxed)
		v := args[len(args)-1]
		for i := 0; i < 3; i++ {
			switch x := v.(type) {
			case *ssa.MakeInterface:
				v = x.X
			case *ssa.ChangeType:
				v = x.X
			}
		}
		return len(fn.Params) > 1 && v == ssa.Value(fn.Params[1])
	}
	ok := noPathAvoiding(fn, isAppend, nil)
	c.Check(ok, rule, name, p.Pos(fn.Pos()), "every return has appended the given listener to "+field, "a return is reachable without appending the given listener to "+field+" (registration skipped or made conditional): that listener never runs")
}

// ruleC15Inherit: the symbols a child store is granted are the parent's symbol OBJECTS: they stay bound to
// the parent store, whose entity bucket holds the shared fields.  A map symbol entered into a store's table
// is either built there for that store, or the very object that was handed in — never a copy re-bound to
// the receiving store (its elements would then be looked up in the child's sub-bucket, where shared fields
// are not stored).
func ruleC15Inherit(c *Ctx) {
	p := c.P
	tbl := p.Field("boltz", "BaseStore", "mapSymbols")
	symT := p.Named("boltz", "entityMapSymbol")
	n := 0
	for _, fn := range c.prodFuncs("boltz") {
		for _, b := range fn.Blocks {
			for _, in := range b.Instrs {
				mu, ok := in.(*ssa.MapUpdate)
				if !ok {
					continue
				}
				if f, _ := loadedField(mu.Map); !sameVar(f, tbl) {
					continue
				}
				n++
				c.Analysed(FnName(fn))
				okV, how := false, ""
				handedIn := false
				for _, prm := range fn.Params {
					if namedOf(prm.Type()) == symT {
						handedIn = true
					}
				}
				switch v := mu.Value.(type) {
				case *ssa.Parameter:
					okV, how = true, "the object handed in"
				case *ssa.Alloc:
					if namedOf(v.Type()) == symT && fn.Signature.Recv() != nil && !handedIn {
						// built here: bound to the receiver
						for _, r := range *v.Referrers() {
							if fa, isFA := r.(*ssa.FieldAddr); isFA {
								if f, _ := fieldOfAddr(fa); f != nil && f.Name() == "store" {
									for _, fr := range *fa.Referrers() {
										if st, isSt := fr.(*ssa.Store); isSt {
											if mi, isMI := st.Val.(*ssa.MakeInterface); isMI && mi.X == ssa.Value(fn.Params[0]) {
												okV, how = true, "a symbol built here for this store"
											}
										}
									}
								}
							}
						}
					}
				}
				c.Check(okV, "C15.INHERIT", FnName(fn)+": enters a map symbol", p.Pos(mu.Pos()), "the entry is "+how, "the map symbol entered into the store's table is "+describeValue(mu.Value)+" — neither the object that was handed in nor a symbol built here for this store: an inherited symbol re-bound to the child store reads shared fields from the child's sub-bucket, where they are not stored, so every element evaluates to null")
			}
		}
	}
	c.CallSites(n)
	c.Floor("C15.INHERIT", 2)
}

// cellVal stands for a field of a local struct in value families (a place, not an instruction).
type cellVal struct{ t types.Type }

func (v *cellVal) Name() string                  { return "cell" }
func (v *cellVal) String() string                { return "cell" }
func (v *cellVal) Type() types.Type              { return v.t }
func (v *cellVal) Parent() *ssa.Function         { return nil }
func (v *cellVal) Referrers() *[]ssa.Instruction { return nil }
func (v *cellVal) Pos() token.Pos                { return token.NoPos }

// skipPredicateField: every function value stored into the field is a "skip this row" predicate that answers
// false only when the store is not a child store, or the row has child data, or the store is extended.
func skipPredicateField(c *Ctx, fld *types.Var) bool {
	p := c.P
	n := 0
	for _, fn := range c.prodFuncs("boltz") {
		for _, b := range fn.Blocks {
			for _, in := range b.Instrs {
				st, isSt := in.(*ssa.Store)
				if !isSt {
					continue
				}
				if f, _ := fieldOfAddr(st.Addr); !sameVar(f, fld) {
					continue
				}
				n++
				preds := closuresOf(st.Val, 0)
				if len(preds) == 0 {
					return false
				}
				for _, cl := range preds {
					if !skipPredicateOK(cl) {
						return false
					}
					c.Analysed(FnName(cl))
				}
			}
		}
	}
	_ = p
	return n > 0
}

// closuresOf: the functions a function value can be: a closure made here, a named function, or what a factory
// of the module returns on each of its paths.
func closuresOf(v ssa.Value, depth int) []*ssa.Function {
	if depth > 3 {
		return nil
	}
	switch x := v.(type) {
	case *ssa.ChangeType:
		return closuresOf(x.X, depth+1)
	case *ssa.MakeClosure:
		if f, ok := x.Fn.(*ssa.Function); ok {
			return []*ssa.Function{f}
		}
	case *ssa.Function:
		if x.Blocks != nil {
			return []*ssa.Function{x}
		}
	case *ssa.Call:
		sc := x.Call.StaticCallee()
		if sc == nil || sc.Blocks == nil || !inModule(sc) {
			return nil
		}
		var out []*ssa.Function
		for _, r := range returnsOf(sc) {
			if len(r.Results) != 1 {
				return nil
			}
			sub := closuresOf(r.Results[0], depth+1)
			if len(sub) == 0 {
				return nil
			}
			out = append(out, sub...)
		}
		return out
	}
	return nil
}

// skipPredicateOK: wherever the predicate can answer false, one of the three facts holds.
func skipPredicateOK(fn *ssa.Function) bool {
	if fn.Signature.Results().Len() != 1 {
		return false
	}
	fi := factsOf(fn)
	established := func(from, to *ssa.BasicBlock) bool {
		for f := range fi.edgeFacts(from, to) {
			call, ok := f.V.(*ssa.Call)
			if f.Kind != "true" || !ok {
				continue
			}
			switch {
			case invokeNamed(call, "IsChildStore") && !f.Pol, invokeNamed(call, "IsEntityPresent") && f.Pol, invokeNamed(call, "IsExtended") && f.Pol:
				return true
			}
		}
		return false
	}
	// falseMeansOK: the value being false is itself one of the three facts
	var falseMeansOK func(v ssa.Value) bool
	falseMeansOK = func(v ssa.Value) bool {
		switch x := v.(type) {
		case *ssa.Call:
			return invokeNamed(x, "IsChildStore")
		case *ssa.UnOp:
			if x.Op == token.NOT {
				if k, isCall := x.X.(*ssa.Call); isCall {
					return invokeNamed(k, "IsEntityPresent") || invokeNamed(k, "IsExtended")
				}
			}
		}
		return false
	}
	for _, r := range returnsOf(fn) {
		type leaf struct {
			v    ssa.Value
			from *ssa.BasicBlock
			to   *ssa.BasicBlock
		}
		var leaves []leaf
		if phi, isPhi := r.Results[0].(*ssa.Phi); isPhi {
			for i, e := range phi.Edges {
				leaves = append(leaves, leaf{e, phi.Block().Preds[i], phi.Block()})
			}
		} else {
			leaves = append(leaves, leaf{r.Results[0], nil, r.Block()})
		}
		for _, lf := range leaves {
			if k, isK := lf.v.(*ssa.Const); isK && k.Value != nil && k.Value.Kind() == constant.Bool {
				if constant.BoolVal(k.Value) {
					continue
				}
			} else if falseMeansOK(lf.v) {
				continue
			}
			// may be false here for another reason: every path into this edge must have established a fact
			target := lf.to
			if lf.from != nil {
				if established(lf.from, lf.to) {
					continue
				}
				target = lf.from
			}
			ps := &pathSearch{fn: fn, fi: fi, start: fn.Blocks[0], skipEdge: established}
			ps.target = func(in ssa.Instruction) bool { return in.Block() == target }
			reached := ps.run()
			if reached {
				return false
			}
		}
	}
	return true
}

// presenceHelperFalseImplies: g answers a bool; wherever it answers false, one of "not a child store", "child
// data present", "extended store" holds (decided over g's returns, phi edges and branch facts).
func presenceHelperFalseImplies(g *ssa.Function) bool {
	if g.Signature.Results().Len() != 1 || !types.Identical(g.Signature.Results().At(0).Type(), types.Typ[types.Bool]) {
		return false
	}
	fi := ComputeFacts(g)
	goodFact := func(f Fact) bool {
		call, ok := f.V.(*ssa.Call)
		if !ok || f.Kind != "true" {
			return false
		}
		switch {
		case invokeNamed(call, "IsChildStore") && !f.Pol:
			return true
		case invokeNamed(call, "IsEntityPresent") && f.Pol:
			return true
		case invokeNamed(call, "IsExtended") && f.Pol:
			return true
		}
		return false
	}
	holdsAt := func(b *ssa.BasicBlock) bool {
		for _, call := range callsIn(g) {
			cv, ok := call.(*ssa.Call)
			if !ok {
				continue
			}
			for _, pol := range []bool{true, false} {
				f := Fact{"true", cv, pol}
				if goodFact(f) && fi.Holds(b, f) {
					return true
				}
			}
		}
		return false
	}
	var check func(v ssa.Value, blk *ssa.BasicBlock, d int) bool
	check = func(v ssa.Value, blk *ssa.BasicBlock, d int) bool {
		if d > 6 {
			return false
		}
		switch x := v.(type) {
		case *ssa.Const:
			if x.Value != nil && constant.BoolVal(x.Value) {
				return true
			}
			return holdsAt(blk)
		case *ssa.Phi:
			for i, e := range x.Edges {
				pred := x.Block().Preds[i]
				if k, isK := e.(*ssa.Const); isK && k.Value != nil && !constant.BoolVal(k.Value) {
					ok := holdsAt(pred)
					for f := range fi.edgeFacts(pred, x.Block()) {
						if goodFact(f) {
							ok = true
						}
					}
					if !ok {
						return false
					}
					continue
				}
				if !check(e, pred, d+1) {
					return false
				}
			}
			return true
		case *ssa.UnOp:
			if x.Op.String() == "!" {
				if call, isCall := x.X.(*ssa.Call); isCall {
					return goodFact(Fact{"true", call, true}) || holdsAt(blk)
				}
			}
			return holdsAt(blk)
		case *ssa.Call:
			return goodFact(Fact{"true", x, false}) || holdsAt(blk)
		}
		return false
	}
	for _, r := range returnsOf(g) {
		if len(r.Results) != 1 || !check(r.Results[0], r.Block(), 0) {
			return false
		}
	}
	return true
}
