package main

import (
	"fmt"
	"go/token"
	"go/types"
	"os"
	"path/filepath"
	"regexp"
	"strconv"
	"strings"

	"golang.org/x/tools/go/ssa"
)

// Rules added after the seventh round of seeded changes.

// ruleLoopSkip: inside a loop, a failure that was only classified (IsXxx(err), errors.Is/As) must not be left
// behind by going on to the next iteration: on the non-nil side of an error test no path returns to the loop
// header without the error having been returned, stored, or handed to something other than a predicate.
// Exceptions are tabled with their reason.
var loopSkipTabled = map[string]string{}

func ruleLoopSkip(c *Ctx, rule string, fns []*ssa.Function) {
	p := c.P
	n := 0
	for _, fn := range fns {
		if errorResultIndex(fn.Signature) < 0 {
			continue
		}
		loops := loopsOf(fn)
		if len(loops) == 0 {
			continue
		}
		for _, b := range fn.Blocks {
			iff, ok := b.Instrs[len(b.Instrs)-1].(*ssa.If)
			if !ok {
				continue
			}
			bo, ok := iff.Cond.(*ssa.BinOp)
			if !ok || (bo.Op != token.NEQ && bo.Op != token.EQL) {
				continue
			}
			var errv ssa.Value
			switch {
			case isNilConst(bo.Y) && isErrorType(bo.X.Type()):
				errv = bo.X
			case isNilConst(bo.X) && isErrorType(bo.Y.Type()):
				errv = bo.Y
			default:
				continue
			}
			// an error produced by a call (directly or as one of its results)
			switch x := errv.(type) {
			case *ssa.Call:
			case *ssa.Extract:
				if _, isCall := x.Tuple.(*ssa.Call); !isCall {
					continue
				}
			default:
				continue
			}
			l := innermostLoop(loops, b)
			if l == nil || !l.Blocks[errv.(ssa.Instruction).Block()] {
				continue
			}
			nonNil := b.Succs[0]
			if bo.Op == token.EQL {
				nonNil = b.Succs[1]
			}
			n++
			c.Analysed(FnName(fn))
			derived := map[ssa.Value]bool{errv: true}
			handles := func(in ssa.Instruction) bool {
				switch x := in.(type) {
				case *ssa.Return:
					for _, r := range x.Results {
						if derived[r] {
							return true
						}
					}
				case *ssa.Store:
					return derived[x.Val]
				case *ssa.MakeInterface:
					if derived[x.X] {
						derived[x] = true
					}
				case *ssa.ChangeInterface:
					if derived[x.X] {
						derived[x] = true
					}
				case *ssa.Phi:
					for _, e := range x.Edges {
						if derived[e] {
							return true // flows into a variable that outlives the iteration
						}
					}
				case *ssa.MapUpdate:
					return derived[x.Value]
				case *ssa.Send:
					return derived[x.X]
				case ssa.CallInstruction:
					uses := false
					for _, a := range x.Common().Args {
						if derived[a] {
							uses = true
						}
					}
					if x.Common().IsInvoke() && derived[x.Common().Value] {
						// err.Error(): rendering, not handling — unless the text goes somewhere; treat the
						// resulting string as derived
						if v, isV := in.(ssa.Value); isV {
							derived[v] = true
						}
						return false
					}
					if !uses {
						return false
					}
					if isErrorClassifier(x) {
						return false
					}
					// wrapping (fmt.Errorf, errors.Wrap...): the wrapper is the error now
					if v, isV := in.(ssa.Value); isV && isErrorType(v.Type()) {
						derived[v] = true
						return false
					}
					return true
				}
				return false
			}
			skip := reachesHeaderNoPhi(l, nonNil, handles, func(v ssa.Value) bool { return derived[v] })
			construct := FnName(fn) + ": " + describeValue(errv)
			if why, tabled := loopSkipTabled[construct]; tabled {
				c.OK(rule, construct, p.Pos(iff.Cond.Pos()), "tabled exception: "+why)
				continue
			}
			c.Check(!skip, rule, construct, p.Pos(errv.Pos()), "inside the loop a failure is returned, recorded or handed on before the next iteration", "after this call failed the loop can go on to the next iteration with the error only looked at (classified), never returned or recorded: the failure of one element is lost and the caller sees success")
		}
	}
	c.CallSites(n)
}

// reachesHeaderNoPhi: from block start (inside loop l) the loop header can be reached again without passing an
// instruction that handles the error; values flowing into a phi along the taken edge count as handled.
func reachesHeaderNoPhi(l *Loop, start *ssa.BasicBlock, handles func(ssa.Instruction) bool, isDerived func(ssa.Value) bool) bool {
	seen := map[*ssa.BasicBlock]bool{}
	var walk func(blk *ssa.BasicBlock) bool
	walk = func(blk *ssa.BasicBlock) bool {
		if blk == l.Header {
			return true
		}
		if seen[blk] || !l.Blocks[blk] {
			return false
		}
		seen[blk] = true
		for _, in := range blk.Instrs {
			if _, isPhi := in.(*ssa.Phi); isPhi {
				continue
			}
			if handles(in) {
				return false
			}
		}
		for _, s := range blk.Succs {
			// the error flows into a variable along this edge (a result slot, an accumulated error)
			flows := false
			for _, in := range s.Instrs {
				phi, isPhi := in.(*ssa.Phi)
				if !isPhi {
					break
				}
				for k, pr := range s.Preds {
					if pr == blk && k < len(phi.Edges) && isDerived(phi.Edges[k]) {
						flows = true
					}
				}
			}
			if flows {
				continue
			}
			if walk(s) {
				return true
			}
		}
		return false
	}
	return walk(start)
}

// isErrorClassifier: a call that only answers a question about an error: errors.Is / errors.As, or a function
// returning a single bool whose name says so.
func isErrorClassifier(ci ssa.CallInstruction) bool {
	cal, _ := calleeOf(ci.Common())
	if cal == nil {
		return false
	}
	if cal.Pkg() != nil && cal.Pkg().Path() == "errors" && (cal.Name() == "Is" || cal.Name() == "As") {
		return true
	}
	sig, ok := cal.Type().(*types.Signature)
	if !ok || sig.Results().Len() != 1 {
		return false
	}
	b, isB := sig.Results().At(0).Type().Underlying().(*types.Basic)
	if !isB || b.Kind() != types.Bool {
		return false
	}
	return strings.HasPrefix(cal.Name(), "Is") || strings.HasPrefix(cal.Name(), "is") || strings.HasPrefix(cal.Name(), "As")
}

// ruleRegistrationReachesPhase: what a store's Add…Constraint / Add…Listener methods register must end up in
// the list the corresponding phase of a change actually walks: constraints in the list the pre-commit
// processing ranges over (that is where a veto is raised), listeners in the list the post-commit processing
// ranges over.  The lists are found by what the phases do (an invoke of ProcessPreCommit / ProcessPostCommit
// in a loop over a field of the store), the registration methods by their exported names.
func ruleRegistrationReachesPhase(c *Ctx, rule string, phase string) {
	p := c.P
	storeT := p.Named("boltz", "BaseStore")
	st, _ := storeT.Underlying().(*types.Struct)
	isStoreField := func(f *types.Var) bool {
		for i := 0; st != nil && i < st.NumFields(); i++ {
			if sameVar(st.Field(i), f) {
				return true
			}
		}
		return false
	}
	hook := map[string]string{"pre": "ProcessPreCommit", "post": "ProcessPostCommit"}[phase]
	// the lists walked by the phase
	walked := map[string]*types.Var{}
	for _, fn := range c.prodFuncs("boltz") {
		for _, call := range callsIn(fn) {
			cc := call.Common()
			if !cc.IsInvoke() || cc.Method.Name() != hook {
				continue
			}
			// the receiver is an element of a collection loaded from a field of the store
			var find func(v ssa.Value, depth int) *types.Var
			find = func(v ssa.Value, depth int) *types.Var {
				if v == nil || depth > 10 {
					return nil
				}
				if f, _ := loadedField(v); f != nil && isStoreField(f) {
					return f
				}
				if f, _ := fieldOfAddr(v); f != nil && isStoreField(f) {
					return f
				}
				switch x := v.(type) {
				case *ssa.UnOp:
					return find(x.X, depth+1)
				case *ssa.IndexAddr:
					return find(x.X, depth+1)
				case *ssa.Extract:
					return find(x.Tuple, depth+1)
				case *ssa.Next:
					return find(x.Iter, depth+1)
				case *ssa.Range:
					return find(x.X, depth+1)
				case *ssa.Phi:
					for _, e := range x.Edges {
						if f := find(e, depth+1); f != nil {
							return f
						}
					}
				case *ssa.Call:
					if x.Call.IsInvoke() {
						return find(x.Call.Value, depth+1)
					}
					for _, a := range x.Call.Args {
						if f := find(a, depth+1); f != nil {
							return f
						}
					}
				}
				return nil
			}
			if f := find(cc.Value, 0); f != nil {
				walked[f.Name()] = f
				c.Analysed(FnName(fn))
			}
		}
	}
	if len(walked) == 0 {
		c.Undecided(rule, "boltz.BaseStore: list walked by "+hook, "-", "cannot find the store field whose elements receive "+hook)
		return
	}
	var names []string
	for n := range walked {
		names = append(names, n)
	}
	want := "Constraint"
	if phase == "post" {
		want = "Listener"
	}
	n := 0
	for i := 0; i < storeT.NumMethods(); i++ {
		m := storeT.Method(i)
		if !m.Exported() || !strings.HasPrefix(m.Name(), "Add") || !strings.Contains(m.Name(), want) {
			continue
		}
		if phase == "post" && strings.Contains(m.Name(), "Constraint") {
			continue
		}
		fn := p.SSAFunc(m)
		if fn == nil || fn.Blocks == nil {
			continue
		}
		n++
		name := FnName(fn)
		c.Analysed(name)
		isAppend := func(in ssa.Instruction) bool {
			call, ok := in.(ssa.CallInstruction)
			if !ok {
				return false
			}
			cal, _ := calleeOf(call.Common())
			if cal == nil || cal.Name() != "Append" || len(call.Common().Args) < 2 {
				return false
			}
			recv := call.Common().Args[0]
			f, _ := fieldOfAddr(recv)
			if f == nil {
				f, _ = loadedField(recv)
			}
			return f != nil && walked[f.Name()] != nil && sameVar(walked[f.Name()], f)
		}
		ok := noPathAvoiding(fn, isAppend, nil)
		c.Check(ok, rule, name, p.Pos(fn.Pos()), "every return has appended the registration to the list "+hook+" walks ("+strings.Join(names, ", ")+")",
			"a return is reachable without the registration having been appended to the list whose elements receive "+hook+" ("+strings.Join(names, ", ")+"): what is registered here is never asked in that phase")
	}
	c.Floor(rule, 1)
	c.CallSites(n)
}

// ruleEvalPure: evaluating a filter never writes into what an operand or a symbol handed out: no store through a
// pointer that an Eval… / symbol accessor call returned (the in-memory store's getters return pointers into the
// live entities; the bolt store's return fresh values — the engine may not rely on either).
func ruleEvalPure(c *Ctx, rule string, pkgs ...string) {
	p := c.P
	n := 0
	for _, fn := range c.prodFuncs(pkgs...) {
		for _, b := range fn.Blocks {
			for _, in := range b.Instrs {
				st, ok := in.(*ssa.Store)
				if !ok {
					continue
				}
				// the address: a pointer-typed result of an Eval… call (possibly through a phi / nil test)
				var src *ssa.Call
				var chase func(v ssa.Value, depth int)
				chase = func(v ssa.Value, depth int) {
					if depth > 4 || src != nil {
						return
					}
					switch x := v.(type) {
					case *ssa.Call:
						name := ""
						if x.Call.IsInvoke() {
							name = x.Call.Method.Name()
						} else if cal, _ := calleeOf(x.Common()); cal != nil {
							name = cal.Name()
						}
						if strings.HasPrefix(name, "Eval") {
							src = x
						}
					case *ssa.Extract:
						chase(x.Tuple, depth+1)
					case *ssa.Phi:
						for _, e := range x.Edges {
							chase(e, depth+1)
						}
					case *ssa.FieldAddr:
						chase(x.X, depth+1)
					case *ssa.IndexAddr:
						chase(x.X, depth+1)
					}
				}
				if _, isPtr := st.Addr.Type().Underlying().(*types.Pointer); !isPtr {
					continue
				}
				chase(st.Addr, 0)
				if src == nil {
					continue
				}
				n++
				c.Analysed(FnName(fn))
				c.Check(false, rule, FnName(fn)+": write through "+describeValue(src), p.Pos(st.Pos()), "evaluation results are not written through",
					"a value is stored through the pointer that "+describeValue(src)+" returned: an implementation of Symbols may hand out pointers into its live data (the in-memory object store does), so evaluating a filter would change the entity and later comparisons of the same query see the changed value")
			}
		}
	}
	if n == 0 {
		c.OK(rule, strings.Join(pkgs, ", ")+": Eval results", "-", "no store through a pointer returned by an Eval… call")
	}
}

// ruleListenersKept: the listener lists of the database handle live as long as the handle: a restore closes and
// reopens the bolt file behind the same DbImpl, so anything that empties or replaces the lists in between (in
// Close, in Open, in the restore itself) silently drops every registration.  The only operations on the fields
// are Append (registration) and Value (reading).
func ruleListenersKept(c *Ctx, rule string, fields ...string) {
	p := c.P
	allowed := map[string]bool{"Append": true, "Value": true}
	for _, fname := range fields {
		fld := p.Field("boltz", "DbImpl", fname)
		n, bad := 0, ""
		for _, fn := range c.prodFuncs("boltz") {
			for _, b := range fn.Blocks {
				for _, in := range b.Instrs {
					fa, ok := in.(*ssa.FieldAddr)
					if !ok {
						continue
					}
					if f, _ := fieldOfAddr(fa); !sameVar(f, fld) {
						continue
					}
					for _, r := range *fa.Referrers() {
						n++
						switch x := r.(type) {
						case ssa.CallInstruction:
							cal, _ := calleeOf(x.Common())
							if cal == nil || !allowed[cal.Name()] || len(x.Common().Args) == 0 || x.Common().Args[0] != ssa.Value(fa) {
								nm := "a call"
								if cal != nil {
									nm = cal.Name()
								}
								bad = FnName(fn) + " applies " + nm + " to the list at " + p.Pos(r.Pos())
							}
						case *ssa.Store:
							bad = FnName(fn) + " assigns the list at " + p.Pos(r.Pos())
						case *ssa.UnOp:
							// a copy of the list value: reading
						case *ssa.DebugRef:
						default:
							bad = FnName(fn) + " uses the address of the list at " + p.Pos(r.Pos())
						}
					}
				}
			}
		}
		c.Check(bad == "" && n > 0, rule, "boltz.DbImpl."+fname, "-", "the list is only appended to and read", bad+": the registrations made on this handle are dropped or replaced — a restore (close, swap, reopen on the same handle) would then notify nobody")
	}
	c.Floor(rule, len(fields))
}

// ruleFreshDefaultContext: a transaction entry that is given no context makes a new one for this call; it never
// falls back to a context kept in the handle or the package (two callers would then share one transaction
// binding: the second joins the first's transaction from another goroutine).
func ruleFreshDefaultContext(c *Ctx, rule string) {
	p := c.P
	mc := p.Named("boltz", "MutateContext")
	n := 0
	for _, m := range []string{"Update", "Batch"} {
		fn := p.SSAFunc(p.Method("boltz", "DbImpl", m))
		name := FnName(fn)
		c.Analysed(name)
		// the context parameter
		var ctxPrm *ssa.Parameter
		for _, prm := range fn.Params {
			if types.Identical(prm.Type(), mc) {
				ctxPrm = prm
			}
		}
		if ctxPrm == nil {
			c.Undecided(rule, name, p.Pos(fn.Pos()), "no MutateContext parameter")
			continue
		}
		// every value that can stand in for the parameter: merged with it in a phi, or stored into the
		// variable that holds it (the variable lives in memory when a closure captures it)
		bad := ""
		var cell *ssa.Alloc
		if refs := ctxPrm.Referrers(); refs != nil {
			for _, r := range *refs {
				if st, ok := r.(*ssa.Store); ok && st.Val == ssa.Value(ctxPrm) {
					cell, _ = st.Addr.(*ssa.Alloc)
				}
			}
		}
		var examine func(v ssa.Value, depth int)
		examine = func(v ssa.Value, depth int) {
			if depth > 5 || v == ssa.Value(ctxPrm) {
				return
			}
			switch x := v.(type) {
			case *ssa.MakeInterface:
				examine(x.X, depth+1)
				return
			case *ssa.ChangeInterface:
				examine(x.X, depth+1)
				return
			case *ssa.Phi:
				for _, e := range x.Edges {
					examine(e, depth+1)
				}
				return
			case *ssa.UnOp:
				if cell != nil && x.X == ssa.Value(cell) {
					return // the variable itself read back
				}
			}
			n++
			switch x := v.(type) {
			case *ssa.Call:
				// a constructor call made here: fresh unless it hands out something kept elsewhere
				if sc := x.Call.StaticCallee(); sc != nil && sc.Blocks != nil {
					for _, r := range returnsOf(sc) {
						rv := r.Results[0]
						if mi, isMI := rv.(*ssa.MakeInterface); isMI {
							rv = mi.X
						}
						if _, isAlloc := rv.(*ssa.Alloc); !isAlloc {
							if _, isCall := rv.(*ssa.Call); !isCall {
								bad = "the default context comes from " + FnName(sc) + ", which returns " + describeValue(rv) + " rather than a new object"
							}
						}
					}
				}
			case *ssa.Alloc:
			default:
				bad = "when no context is given the transaction runs under " + describeValue(v) + " — not a context made for this call"
			}
		}
		for _, b := range fn.Blocks {
			for _, in := range b.Instrs {
				switch x := in.(type) {
				case *ssa.Phi:
					hasPrm := false
					for _, e := range x.Edges {
						if e == ssa.Value(ctxPrm) {
							hasPrm = true
						}
					}
					if hasPrm && cell == nil {
						examine(x, 0)
					}
				case *ssa.Store:
					if cell != nil && x.Addr == ssa.Value(cell) && x.Val != ssa.Value(ctxPrm) {
						examine(x.Val, 0)
					}
				}
			}
		}
		c.Check(bad == "", rule, name, p.Pos(fn.Pos()), "a missing context is replaced by a new one made for this call", bad+": concurrent callers without a context of their own would share one transaction binding")
	}
	c.CallSites(n)
	c.Floor(rule, 2)
}

// ruleSymbolKeyRoles: the exported Add…SymbolWithKey methods take a symbol name (what queries say) and a key
// (where the value is stored).  The symbol they build carries the name parameter as its name and the key
// parameter as its key — followed through the helpers that do the building.  Positions are those of the
// exported signatures (which cannot change without breaking callers).
func ruleSymbolKeyRoles(c *Ctx, rule string) {
	p := c.P
	symT := p.Named("boltz", "entitySymbol")
	nameFld := p.Field("boltz", "entitySymbol", "name")
	keyFld := p.Field("boltz", "entitySymbol", "key")
	var source func(fn *ssa.Function, fld *types.Var, depth int) (int, bool)
	source = func(fn *ssa.Function, fld *types.Var, depth int) (int, bool) {
		if fn == nil || fn.Blocks == nil || depth > 4 {
			return 0, false
		}
		paramIdx := func(v ssa.Value) (int, bool) {
			for i := 0; i < 3; i++ {
				if ct, ok := v.(*ssa.ChangeType); ok {
					v = ct.X
				}
			}
			for i, prm := range fn.Params {
				if v == ssa.Value(prm) {
					return i, true
				}
			}
			return 0, false
		}
		for _, b := range fn.Blocks {
			for _, in := range b.Instrs {
				st, ok := in.(*ssa.Store)
				if !ok {
					continue
				}
				f, base := fieldOfAddr(st.Addr)
				if f == nil || !sameVar(f, fld) || namedOf(base.Type()) != symT {
					continue
				}
				if i, ok := paramIdx(st.Val); ok {
					return i, true
				}
			}
		}
		for _, call := range callsIn(fn) {
			sc := call.Common().StaticCallee()
			if sc == nil || sc.Pkg != fn.Pkg || sc == fn {
				continue
			}
			if gi, ok := source(sc, fld, depth+1); ok && gi < len(call.Common().Args) {
				if i, ok := paramIdx(call.Common().Args[gi]); ok {
					return i, true
				}
			}
		}
		return 0, false
	}
	for _, row := range []struct {
		method    string
		name, key int // parameter positions, receiver excluded
	}{{"AddSymbolWithKey", 0, 2}, {"AddFkSymbolWithKey", 0, 1}} {
		fn := p.SSAFunc(p.Method("boltz", "BaseStore", row.method))
		name := FnName(fn)
		c.Analysed(name)
		gotName, okN := source(fn, nameFld, 0)
		gotKey, okK := source(fn, keyFld, 0)
		if !okN || !okK {
			c.Undecided(rule, name, p.Pos(fn.Pos()), "cannot follow the parameters into the name and key of the symbol that is built")
			continue
		}
		ok := gotName == row.name+1 && gotKey == row.key+1
		c.Check(ok, rule, name, p.Pos(fn.Pos()), "the symbol's name is the name parameter and its storage key the key parameter",
			"the symbol is built with parameter #"+itoa(gotName)+" as its name and parameter #"+itoa(gotKey)+" as its storage key (expected #"+itoa(row.name+1)+" and #"+itoa(row.key+1)+"): a symbol whose key differs from its name is read from the wrong field — for a foreign key the existence check, the back-references and the restrict/cascade on delete all see null")
	}
	c.Floor(rule, 2)
}

func itoa(i int) string { return strconv.Itoa(i) }

// ruleStackIndexGuard: package ast keeps small stacks in slice fields (the parse stacks, the validator's scope
// stack).  Taking the first/last element or dropping it (s[0], s[len(s)-1], s[1:], s[:len(s)-1]) on a slice
// FIELD panics when the stack is empty; every such site stands under a test of that slice's length or under the
// owner's "no error so far" latch (errors are what leave pushes undone).
func ruleStackIndexGuard(c *Ctx, rule string) {
	p := c.P
	n, bad := 0, 0
	for _, fn := range c.prodFuncs("ast") {
		if p.isGenerated(fn.Pos()) {
			continue
		}
		// cursors are out of scope: their protocol is "Current/Next only after IsValid answered true", which
		// is the caller's obligation (C14), not a guard inside the method
		if recv := fn.Signature.Recv(); recv != nil {
			if nm := namedOf(recv.Type()); nm != nil {
				isCursor := false
				for i := 0; i < nm.NumMethods(); i++ {
					if nm.Method(i).Name() == "IsValid" {
						isCursor = true
					}
				}
				if isCursor {
					continue
				}
			}
		}
		var fi *FactInfo
		// the slice loaded from a field
		fieldSlice := func(v ssa.Value) *types.Var {
			f, _ := loadedField(v)
			if f == nil {
				return nil
			}
			if _, isSl := f.Type().Underlying().(*types.Slice); !isSl {
				return nil
			}
			return f
		}
		isLenOf := func(v ssa.Value, f *types.Var) bool {
			call, ok := v.(*ssa.Call)
			if !ok {
				return false
			}
			bi, isB := call.Call.Value.(*ssa.Builtin)
			if !isB || bi.Name() != "len" {
				return false
			}
			g, _ := loadedField(call.Call.Args[0])
			return g != nil && sameVar(g, f)
		}
		edgeIndex := func(idx ssa.Value, f *types.Var) bool {
			if idx == nil {
				return false
			}
			if k, ok := idx.(*ssa.Const); ok && k.Value != nil {
				return true
			}
			if bo, ok := idx.(*ssa.BinOp); ok && bo.Op == token.SUB && isLenOf(bo.X, f) {
				_, isK := bo.Y.(*ssa.Const)
				return isK
			}
			return false
		}
		for _, b := range fn.Blocks {
			for _, in := range b.Instrs {
				var f *types.Var
				var what string
				switch x := in.(type) {
				case *ssa.IndexAddr:
					if f = fieldSlice(x.X); f != nil && edgeIndex(x.Index, f) {
						what = "element"
					} else {
						f = nil
					}
				case *ssa.Slice:
					if f = fieldSlice(x.X); f != nil {
						lowK := false
						if k, ok := x.Low.(*ssa.Const); ok && k.Value != nil && k.Int64() > 0 {
							lowK = true
						}
						if lowK || (x.High != nil && edgeIndex(x.High, f) && !isConstVal(x.High)) {
							what = "reslice"
						} else {
							f = nil
						}
					}
				}
				if f == nil {
					continue
				}
				n++
				if fi == nil {
					fi = ComputeFacts(fn)
					c.Analysed(FnName(fn))
				}
				guarded := fi.HoldsWhere(b, func(ft Fact) bool {
					if ft.Kind != "true" {
						return false
					}
					if call, ok := ft.V.(*ssa.Call); ok && !ft.Pol {
						if cal, _ := calleeOf(call.Common()); cal != nil && cal.Name() == "HasError" {
							return true
						}
					}
					if bo, ok := ft.V.(*ssa.BinOp); ok {
						return isLenOf(bo.X, f) || isLenOf(bo.Y, f)
					}
					return false
				})
				construct := FnName(fn) + ": " + what + " of ." + f.Name()
				if !guarded {
					bad++
				}
				c.Check(guarded, rule, construct, p.Pos(in.Pos()), "under a test of the slice's length or the owner's !HasError() latch", "the "+what+" of the stack field ."+f.Name()+" is taken with no test of its length and outside the !HasError() latch: when an error left the matching push undone (or the stack is empty for another reason) this panics with index out of range instead of reporting the error")
			}
		}
	}
	c.CallSites(n)
	_ = bad
}

func isConstVal(v ssa.Value) bool {
	k, ok := v.(*ssa.Const)
	return ok && k.Value != nil
}

// ruleSortFieldsVerbatim: the parsed sort clause keeps every mention, in the order written (the first
// non-zero comparison decides, so a repeated symbol is harmless and its direction is that of its own
// position): where the listener turns the stacked sort fields into the sort-by node, an element is either
// appended, or stored at the position it has on the stack — never at a position looked up some other way —
// and no iteration that accepted its element goes on without placing it.
func ruleSortFieldsVerbatim(c *Ctx, rule string) {
	p := c.P
	fld := p.Field("ast", "SortByNode", "SortFields")
	n := 0
	for _, fn := range listenerFuncs(c) {
		// functions that fill SortFields in a loop
		var stores []*ssa.Store
		var appends []ssa.Instruction
		for _, b := range fn.Blocks {
			for _, in := range b.Instrs {
				switch x := in.(type) {
				case *ssa.Store:
					if ia, ok := x.Addr.(*ssa.IndexAddr); ok {
						if f, _ := loadedField(ia.X); sameVar(f, fld) {
							stores = append(stores, x)
						} else if mk, isMk := ia.X.(*ssa.MakeSlice); isMk && feedsField(mk, fld) {
							stores = append(stores, x)
						}
					}
					// result.SortFields = append(result.SortFields, x)
					if f, _ := fieldOfAddr(x.Addr); sameVar(f, fld) {
						if call, ok := x.Val.(*ssa.Call); ok {
							if bi, isB := call.Call.Value.(*ssa.Builtin); isB && bi.Name() == "append" {
								appends = append(appends, x)
							}
						}
					}
				}
			}
		}
		if len(stores)+len(appends) == 0 {
			continue
		}
		loops := loopsOf(fn)
		name := FnName(fn)
		c.Analysed(name)
		ok, why := true, ""
		for _, st := range stores {
			l := innermostLoop(loops, st.Block())
			if l == nil {
				continue // a fixed position outside any loop
			}
			n++
			idx := st.Addr.(*ssa.IndexAddr).Index
			// the same index value reads the source collection in this loop
			own := false
			for b := range l.Blocks {
				for _, in := range b.Instrs {
					if ia, isIA := in.(*ssa.IndexAddr); isIA && ia != st.Addr && ia.Index == idx {
						own = true
					}
				}
			}
			if !own {
				ok, why = false, "a sort field is stored at position "+describeValue(idx)+" ("+p.Pos(st.Pos())+"), which is not the position of the element being converted: a later mention can overwrite an earlier one, so the direction or the place of a sort field is no longer the one written"
			}
		}
		n += len(appends)
		c.Check(ok, rule, name, p.Pos(fn.Pos()), "every stacked sort field is appended or stored at its own position", why)
	}
	c.CallSites(n)
	c.Floor(rule, 1)
}

// feedsField: the slice made here is what a composite literal puts into field fld.
func feedsField(mk *ssa.MakeSlice, fld *types.Var) bool {
	for _, r := range *mk.Referrers() {
		if st, ok := r.(*ssa.Store); ok && st.Val == ssa.Value(mk) {
			if f, _ := fieldOfAddr(st.Addr); sameVar(f, fld) {
				return true
			}
		}
	}
	return false
}

// ruleMapElementPath: a dotted name that starts at a map symbol (tags.a.b) addresses nested maps one level per
// segment.  The segment list handed to the map symbol's element constructor is strings.Split(name, ".") (or a
// reslice of it): no element can still contain a dot (a two-way cut would look the rest up as ONE key).
func ruleMapElementPath(c *Ctx, rule string) {
	p := c.P
	ctor := p.Method("boltz", "entityMapSymbol", "createElementSymbol")
	split := p.ExtFunc("strings", "Split")
	// origin of a []string value: "split" (strings.Split(x, ".") or a reslice of it), a parameter of fn, or other
	origin := func(fn *ssa.Function, v ssa.Value) (string, int) {
		for i := 0; i < 4 && v != nil; i++ {
			switch x := v.(type) {
			case *ssa.Slice:
				v = x.X
				continue
			case *ssa.Call:
				if isCallTo(x, split) && len(x.Call.Args) == 2 {
					if s, isS := constString(x.Call.Args[1]); isS && s == "." {
						return "split", 0
					}
				}
			case *ssa.Parameter:
				for k, prm := range fn.Params {
					if prm == x {
						return "param", k
					}
				}
			}
			break
		}
		return "other", 0
	}
	cf := p.SSAFunc(ctor)
	c.Analysed(FnName(cf))
	// inside the constructor: the []string values whose elements become the key and the nested path
	needAtCalls := map[int]bool{}
	n, ok, why := 0, true, ""
	for _, b := range cf.Blocks {
		for _, in := range b.Instrs {
			var src ssa.Value
			switch x := in.(type) {
			case *ssa.IndexAddr:
				src = x.X
			case *ssa.Slice:
				src = x.X
			default:
				continue
			}
			sl, isSl := src.Type().Underlying().(*types.Slice)
			if !isSl {
				continue
			}
			if bt, isB := sl.Elem().Underlying().(*types.Basic); !isB || bt.Kind() != types.String {
				continue
			}
			if f, _ := loadedField(src); f != nil {
				continue // the map symbol's own prefix
			}
			kind, k := origin(cf, src)
			switch kind {
			case "split":
				n++
			case "param":
				needAtCalls[k] = true
			default:
				if _, isAlloc := src.(*ssa.Alloc); isAlloc {
					continue
				}
				if _, isCall := src.(*ssa.Call); isCall {
					continue // append(...) building the prefix
				}
				if _, isPhi := src.(*ssa.Phi); isPhi {
					continue
				}
			}
		}
	}
	for _, fn := range c.prodFuncs("boltz") {
		for _, call := range callsIn(fn) {
			if !isCallTo(call, ctor) {
				continue
			}
			c.Analysed(FnName(fn))
			for k := range needAtCalls {
				if k >= len(call.Common().Args) {
					continue
				}
				n++
				if kind, _ := origin(fn, call.Common().Args[k]); kind != "split" {
					ok = false
					why = "the segments handed to the map symbol at " + p.Pos(call.Pos()) + " are " + describeValue(call.Common().Args[k]) + ", not the name split at every dot: a name with more than two segments (tags.geo.city) is looked up with a key that still contains a dot and evaluates to null for every row"
				}
			}
		}
	}
	if n == 0 && ok {
		c.Undecided(rule, FnName(cf), p.Pos(cf.Pos()), "cannot find where the segments of a map element name come from")
		return
	}
	c.Check(ok, rule, FnName(cf)+": segments of a map element", p.Pos(cf.Pos()), "the segment list is strings.Split(name, \".\") (inside the constructor or at its call sites)", why)
	c.CallSites(n)
	c.Floor(rule, 1)
}

// ruleDatetimeTokenWS: the DATETIME token of the grammar is 'datetime(' WS* <RFC3339> WS* ')' with WS one of
// blank, tab, newline, carriage return.  Whatever the decoder does with the token text (a regular expression,
// trimming, slicing), for every placement of those white-space characters the text it hands to time.Parse is the
// timestamp itself — decided by constant propagation through the decoder for a set of token texts.
func ruleDatetimeTokenWS(c *Ctx, rule string) {
	p := c.P
	fn := p.SSAFunc(p.Func("zitiql", "ParseZqlDatetime"))
	name := FnName(fn)
	c.Analysed(name)
	timeParse := p.ExtFunc("time", "Parse")
	g4, err := os.ReadFile(filepath.Join(p.Root, "zitiql", "ZitiQl.g4"))
	if err != nil {
		c.Undecided(rule, "zitiql/ZitiQl.g4", "-", err.Error())
		return
	}
	// the white-space class of the grammar
	m := regexp.MustCompile(`(?m)^WS\s*:\s*\[([^\]]*)\]\s*;`).FindSubmatch(g4)
	if m == nil {
		c.Undecided(rule, "zitiql/ZitiQl.g4: WS", "-", "the WS rule is no longer a character set")
		return
	}
	var ws []string
	body := string(m[1])
	for i := 0; i < len(body); i++ {
		ch := string(body[i])
		if body[i] == '\\' && i+1 < len(body) {
			i++
			switch body[i] {
			case 'n':
				ch = "\n"
			case 't':
				ch = "\t"
			case 'r':
				ch = "\r"
			case 'f':
				ch = "\f"
			default:
				ch = string(body[i])
			}
		}
		ws = append(ws, ch)
	}
	if !regexp.MustCompile(`(?m)^DATETIME\s*:\s*'datetime\('\s*WS\*\s*RFC3339_DATE_TIME\s*WS\*\s*'\)'\s*;`).Match(g4) {
		c.Undecided(rule, "zitiql/ZitiQl.g4: DATETIME", "-", "the DATETIME token is no longer 'datetime(' WS* RFC3339_DATE_TIME WS* ')'")
		return
	}
	const ts = "2021-02-03T04:05:06Z"
	texts := []string{"datetime(" + ts + ")"}
	for _, w := range ws {
		texts = append(texts, "datetime("+w+ts+")", "datetime("+ts+w+")", "datetime("+w+w+ts+w+")")
	}
	texts = append(texts, "datetime("+strings.Join(ws, "")+ts+strings.Join(ws, "")+")")
	ok, why, undecided := true, "", ""
	for _, text := range texts {
		oracle := func(v ssa.Value) (AV, bool) {
			if prm, isPrm := v.(*ssa.Parameter); isPrm && len(fn.Params) > 0 && prm == fn.Params[0] {
				return avStr(text), true
			}
			return AV{}, false
		}
		evs, derr := DecideCalls(fn, oracle, func(ci ssa.CallInstruction) bool { return isCallTo(ci, timeParse) })
		if derr != "" {
			undecided = fmt.Sprintf("token text %q: %s", text, derr)
			continue
		}
		if len(evs) != 1 {
			ok, why = false, fmt.Sprintf("for the token text %q (white space where the grammar allows it) the decoder does not reach time.Parse: the literal is rejected although the query is a re-spelling of a valid one", text)
			continue
		}
		got, isS := avString(evs[0].Args[len(evs[0].Args)-1])
		if !isS {
			undecided = fmt.Sprintf("token text %q: the text handed to time.Parse is not decided", text)
			continue
		}
		if got != ts {
			ok, why = false, fmt.Sprintf("for the token text %q the decoder hands %q to time.Parse instead of the timestamp %q: white space the grammar allows inside datetime( ) makes the literal unparsable", text, got, ts)
		}
	}
	if ok && undecided != "" {
		c.Undecided(rule, name, p.Pos(fn.Pos()), "the decoder could not be evaluated by constant propagation: "+undecided)
		return
	}
	c.Check(ok, rule, name, p.Pos(fn.Pos()), fmt.Sprintf("for %d token texts covering every white-space character of the grammar before and after the timestamp, time.Parse receives exactly the timestamp", len(texts)), why)
	c.Floor(rule, 1)
}

// ruleBoundedResultTree: the sorting scanners keep at most skip+limit rows in a tree.  One iteration of the scan
// loop that accepts a row is evaluated for every small (rows accepted so far, bound) pair with the tree modelled
// by its size alone (Insert +1, DeleteMax -1 unless empty, Len, Max nil iff empty): afterwards the tree holds
// min(accepted+1, bound) rows — in particular nothing when the bound is 0 — whichever way the loop is written
// (insert then trim, or trim first when full).  Where a comparison with the current maximum decides, both
// outcomes are tried.  Best effort: when the loop cannot be evaluated the rule says so in a note and does not
// alarm.
func ruleBoundedResultTree(c *Ctx, rule string, pkgs ...string) {
	p := c.P
	isTreeOp := func(ci ssa.CallInstruction) string {
		cal, _ := calleeOf(ci.Common())
		if cal == nil || cal.Pkg() == nil || !strings.HasSuffix(cal.Pkg().Path(), "/llrb") {
			return ""
		}
		return cal.Name()
	}
	for _, fn := range c.prodFuncs(pkgs...) {
		if fn.Parent() != nil {
			continue
		}
		var loop *Loop
		loops := loopsOf(fn)
		for _, call := range callsIn(fn) {
			if isTreeOp(call) == "Insert" {
				if l := innermostLoop(loops, call.Block()); l != nil {
					loop = l
				}
			}
		}
		if loop == nil {
			continue
		}
		hasEval := false
		for b := range loop.Blocks {
			for _, in := range b.Instrs {
				if invokeNamed(in, "EvalBool") {
					hasEval = true
				}
			}
		}
		if !hasEval {
			continue
		}
		name := FnName(fn)
		c.Analysed(name)
		// the counter of accepted rows: a field that the loop increments by one
		var countFld *types.Var
		scannerBases := map[ssa.Value]bool{} // the object that holds the counter (the receiver, or a local once the scan is expanded into its caller)
		for b := range loop.Blocks {
			for _, in := range b.Instrs {
				st, ok := in.(*ssa.Store)
				if !ok {
					continue
				}
				f, _ := fieldOfAddr(st.Addr)
				if f == nil {
					continue
				}
				if bo, isB := st.Val.(*ssa.BinOp); isB && bo.Op == token.ADD {
					if lf, _ := loadedField(bo.X); sameVar(lf, f) {
						countFld = f
						if fa, isFA := st.Addr.(*ssa.FieldAddr); isFA {
							scannerBases[cellKey(fa.X)] = true
						}
					}
				}
			}
		}
		inLoop := func(v ssa.Value) bool {
			in, ok := v.(ssa.Instruction)
			return ok && in.Block() != nil && loop.Blocks[in.Block()]
		}
		isInt64 := func(t types.Type) bool {
			b, ok := t.Underlying().(*types.Basic)
			return ok && (b.Kind() == types.Int64 || b.Kind() == types.Int)
		}
		ok, why, undecided := true, "", ""
		rows := 0
		for m := int64(0); m <= 2 && ok; m++ {
			for k := int64(0); k <= 3 && ok; k++ {
				for _, cmp := range []int64{1, -1} {
					size := k
					if size > m {
						size = m
					}
					start := size
					usedCmp := false
					oracle := func(v ssa.Value) (AV, bool) {
						// the scanner itself: a named object, so that what the iteration stores into its fields
						// (the counter) is read back
						if (len(fn.Params) > 0 && paramCopy(v, fn.Params[0])) || scannerBases[cellKey(v)] {
							return AV{Kind: "nonnil", Sym: "alloc:scanner"}, true
						}
						switch x := v.(type) {
						case *ssa.Call:
							if x.Call.IsInvoke() {
								switch x.Call.Method.Name() {
								case "IsValid", "EvalBool":
									return avBool(true), true
								case "IsChildStore", "IsExtended":
									return avBool(false), true
								case "IsEntityPresent":
									return avBool(true), true
								case "Compare":
									usedCmp = true
									return avInt(cmp), true
								}
							}
							switch isTreeOp(x) {
							case "Len":
								return avInt(size), true
							case "Max", "Min":
								if size == 0 {
									return AV{Kind: "nil"}, true
								}
								return AV{Kind: "nonnil", Sym: "edge"}, true
							}
							if cal, _ := calleeOf(x.Common()); cal != nil && cal.Name() == "Compare" {
								usedCmp = true
								return avInt(cmp), true
							}
						case *ssa.UnOp:
							if x.Op == token.MUL {
								if f, _ := loadedField(x); f != nil {
									if countFld != nil && sameVar(f, countFld) {
										return avInt(k), true
									}
									if isInt64(f.Type()) {
										return avInt(m), true // the bound, kept in a field
									}
									if b, isB := f.Type().Underlying().(*types.Basic); isB && b.Kind() == types.Bool {
										return avBool(false), true
									}
								}
							}
						}
						// values the loop carries unchanged (header phis): the bound, flags, other state
						if phi, isPhi := v.(*ssa.Phi); isPhi && phi.Block() == loop.Header {
							switch {
							case isInt64(phi.Type()):
								return avInt(m), true
							default:
								if b, isB := phi.Type().Underlying().(*types.Basic); isB && b.Kind() == types.Bool {
									return avBool(false), true
								}
								return AV{Kind: "sym", Sym: "carried:" + phi.Name()}, true
							}
						}
						// the bound computed before the loop
						if !inLoop(v) && isInt64(v.Type()) {
							if _, isConst := v.(*ssa.Const); !isConst {
								return avInt(m), true
							}
						}
						if !inLoop(v) {
							if b, isB := v.Type().Underlying().(*types.Basic); isB && b.Kind() == types.Bool {
								if _, isConst := v.(*ssa.Const); !isConst {
									return avBool(false), true // "is a child store", computed before the loop
								}
							}
						}
						return AV{}, false
					}
					_, _, exited, err := DecideIteration(fn, loop, oracle, func(ci ssa.CallInstruction) bool {
						switch isTreeOp(ci) {
						case "Insert", "InsertNoReplace", "ReplaceOrInsert":
							size++
						case "DeleteMax", "DeleteMin":
							if size > 0 {
								size--
							}
						}
						return false
					})
					if err != "" || exited {
						if err == "" {
							err = "the loop was left"
						}
						undecided = fmt.Sprintf("accepted=%d bound=%d: %s", k, m, err)
						break
					}
					rows++
					want := k + 1
					if want > m {
						want = m
					}
					if size != want {
						ok = false
						why = fmt.Sprintf("with %d row(s) accepted so far and a bound of %d (skip+limit) the tree holds %d row(s) before and %d after accepting one more; it must hold %d: the page returned has a row too many or too few (a bound of 0 — limit 0 — must return nothing)", k, m, start, size, want)
					}
					if !usedCmp {
						break
					}
				}
				if undecided != "" {
					break
				}
			}
			if undecided != "" {
				break
			}
		}
		if undecided != "" && ok {
			c.Note(rule + ": " + name + " not evaluated (" + undecided + ")")
			continue
		}
		c.Check(ok, rule, name, p.Pos(fn.Pos()), fmt.Sprintf("after accepting a row the result tree holds min(accepted, skip+limit) rows (%d cases)", rows), why)
	}
}

// cellKey: a value read from a local variable's cell (a variable captured by a closure lives in one) is
// identified by the cell, so that two reads of the variable are the same object.
func cellKey(v ssa.Value) ssa.Value {
	if u, isU := v.(*ssa.UnOp); isU && u.Op == token.MUL {
		if al, isAl := u.X.(*ssa.Alloc); isAl {
			return al
		}
	}
	return v
}
