package main

import (
	"encoding/json"
	"fmt"
	"os"
	"path/filepath"
	"sort"
	"strings"
	"time"
)

type Status string

const (
	Discharged Status = "discharged"
	Violated   Status = "violated"
	Undecided  Status = "undecided"
)

// Obl is one proof obligation: a rule applied to a construct.
type Obl struct {
	Rule      string `json:"rule"`
	Construct string `json:"construct"` // line-free key: package-qualified function/type/field/callee
	Pos       string `json:"pos"`       // display only
	Status    Status `json:"status"`
	Why       string `json:"why"`
	Path      string `json:"path,omitempty"` // for path rules: entry -> offending exit
	Control   bool   `json:"-"`
	Known     bool   `json:"known_finding,omitempty"`
}

func (o Obl) Key() string { return o.Rule + " | " + o.Construct }

// Ctx is handed to every rule.
type Ctx struct {
	P        *Prog
	Prop     string
	Tier     string
	obls     []Obl
	counts   map[string]int // rule -> matched real instances
	floors   map[string]int
	funcs    map[string]bool
	calls    int
	notes    []string
	observed []string
	// alias: while set, obligations and floors recorded under a rule name of another property are filed under
	// the name this property lists the rule as (a rule written for one property and cross-listed by another)
	alias map[string]string
}

// As runs f with the rule name `from` filed as `to`.
func (c *Ctx) As(from, to string, f func()) {
	if c.alias == nil {
		c.alias = map[string]string{}
	}
	prev, had := c.alias[from]
	c.alias[from] = to
	f()
	if had {
		c.alias[from] = prev
	} else {
		delete(c.alias, from)
	}
}

func (c *Ctx) ruleName(rule string) string {
	if to, ok := c.alias[rule]; ok {
		return to
	}
	return rule
}

func NewCtx(p *Prog, prop, tier string) *Ctx {
	return &Ctx{P: p, Prop: prop, Tier: tier, counts: map[string]int{}, floors: map[string]int{}, funcs: map[string]bool{}}
}

func isControl(construct string) bool { return strings.Contains(construct, "zzControl") }

func (c *Ctx) add(rule, construct, pos string, st Status, why, path string) {
	rule = c.ruleName(rule)
	o := Obl{Rule: rule, Construct: construct, Pos: pos, Status: st, Why: why, Path: path, Control: isControl(construct)}
	c.obls = append(c.obls, o)
	if !o.Control {
		c.counts[rule]++
	}
}

func (c *Ctx) OK(rule, construct, pos, why string)  { c.add(rule, construct, pos, Discharged, why, "") }
func (c *Ctx) Bad(rule, construct, pos, why string) { c.add(rule, construct, pos, Violated, why, "") }
func (c *Ctx) BadPath(rule, construct, pos, why, path string) {
	c.add(rule, construct, pos, Violated, why, path)
}
func (c *Ctx) Undecided(rule, construct, pos, why string) {
	c.add(rule, construct, pos, Undecided, why, "")
}

// Check records discharged/violated according to cond.
func (c *Ctx) Check(cond bool, rule, construct, pos, okWhy, badWhy string) bool {
	if cond {
		c.OK(rule, construct, pos, okWhy)
	} else {
		c.Bad(rule, construct, pos, badWhy)
	}
	return cond
}

// Floor declares the minimum number of real (non-control) instances a rule must match.
func (c *Ctx) Floor(rule string, n int) { c.floors[c.ruleName(rule)] = n }

func (c *Ctx) Analysed(fn string)   { c.funcs[fn] = true }
func (c *Ctx) CallSites(n int)      { c.calls += n }
func (c *Ctx) Note(s string)        { c.notes = append(c.notes, s) }
func (c *Ctx) Observation(s string) { c.observed = append(c.observed, s) }

// ---- known findings ---------------------------------------------------------

type KnownFinding struct {
	Property  string `json:"property"`
	Rule      string `json:"rule"`
	Construct string `json:"construct"`
	What      string `json:"what"`
}

type KnownFile struct {
	Findings []KnownFinding `json:"findings"`
	Fixed    []string       `json:"fixed"`
}

func loadKnown(path string) (KnownFile, error) {
	var k KnownFile
	b, err := os.ReadFile(path)
	if err != nil {
		if os.IsNotExist(err) {
			return k, nil
		}
		return k, err
	}
	err = json.Unmarshal(b, &k)
	return k, err
}

// ---- finishing: controls, floors, evidence ----------------------------------

type controlExpect struct {
	Rule string
	Name string // substring of construct (function / type name)
	Bad  bool
}

type Outcome struct {
	Violations int
	ExitCode   int
}

func (c *Ctx) Finish(verifDir string, controls []controlExpect, start time.Time, explanation string, trusted []string, assumptions []string) Outcome {
	known, kerr := loadKnown(filepath.Join(verifDir, "known_findings.json"))
	if kerr != nil {
		c.Undecided("FRAMEWORK.KNOWN", "known_findings.json", "-", "cannot read known findings: "+kerr.Error())
	}
	// positive controls
	type ctlRes struct {
		Rule, Name string
		Bad, Fired bool
		OK         bool
	}
	var ctl []ctlRes
	for _, ce := range controls {
		fired := false
		seen := false
		for _, o := range c.obls {
			if o.Control && o.Rule == ce.Rule && strings.Contains(o.Construct, ce.Name) {
				seen = true
				if o.Status != Discharged {
					fired = true
				}
			}
		}
		ok := (ce.Bad && fired) || (!ce.Bad && !fired && seen)
		if !ok && c.P != nil && c.P.ControlsDropped {
			// the control code itself does not compile against this tree (it uses declarations that were
			// restructured): nothing can be concluded from it; the rule's floor still guards against blindness
			ctl = append(ctl, ctlRes{ce.Rule, ce.Name + " (not compilable against this tree: skipped)", ce.Bad, fired, true})
			continue
		}
		ctl = append(ctl, ctlRes{ce.Rule, ce.Name, ce.Bad, fired, ok})
		if !ok {
			why := "rule did not fire on its seeded-bad control (rule has gone blind)"
			if !ce.Bad {
				why = "rule fired on (or never saw) its known-good control"
			}
			c.add("FRAMEWORK.CONTROL", ce.Rule+" control "+ce.Name, "-", Undecided, why, "")
		}
	}
	// floors: explicit ones from the rules, completed by the frozen table
	for k, v := range defaultFloors {
		parts := strings.SplitN(k, " ", 2)
		if len(parts) == 2 && parts[0] == c.Prop {
			if cur, ok := c.floors[parts[1]]; !ok || cur < v {
				c.floors[parts[1]] = v
			}
		}
	}
	for rule, floor := range c.floors {
		// the alarm threshold is half of what was confirmed on the pinned tree (never below one site):
		// merging duplicated code legitimately halves the number of sites, a rule that has gone blind
		// loses (nearly) all of them
		need := (floor + 1) / 2
		if c.counts[rule] < need {
			c.add("FRAMEWORK.FLOOR", rule, "-", Undecided,
				fmt.Sprintf("rule matched %d real sites, fewer than half of the %d confirmed by hand (threshold %d): sites have vanished from the checker's view", c.counts[rule], floor, need), "")
		}
	}
	// classify
	var real []Obl
	for _, o := range c.obls {
		if o.Control {
			continue
		}
		real = append(real, o)
	}
	sort.SliceStable(real, func(i, j int) bool { return real[i].Key() < real[j].Key() })
	nviol := 0
	discharged := 0
	knownHit := 0
	var lines []string
	var viol []Obl
	for i := range real {
		o := &real[i]
		switch o.Status {
		case Discharged:
			discharged++
		default:
			for _, k := range known.Findings {
				if k.Property == c.Prop && k.Rule == o.Rule && k.Construct == o.Construct {
					o.Known = true
				}
			}
			if o.Known {
				knownHit++
				lines = append(lines, fmt.Sprintf("KNOWN-FINDING: property=%s %s %s (%s)", c.Prop, o.Rule, o.Construct, o.Why))
			} else {
				nviol++
				viol = append(viol, *o)
			}
		}
	}
	for _, l := range lines {
		fmt.Println(l)
	}
	// evidence
	ruleInst := map[string]map[string]int{}
	for r, n := range c.counts {
		ruleInst[r] = map[string]int{"matched": n, "floor": c.floors[r]}
	}
	for r, f := range c.floors {
		if _, ok := ruleInst[r]; !ok {
			ruleInst[r] = map[string]int{"matched": 0, "floor": f}
		}
	}
	samples := make([]Obl, 0, len(real))
	// keep all non-discharged plus a bounded number of discharged samples per rule
	perRule := map[string]int{}
	for _, o := range real {
		if o.Status != Discharged {
			samples = append(samples, o)
			continue
		}
		if perRule[o.Rule] < 12 {
			perRule[o.Rule]++
			samples = append(samples, o)
		}
	}
	var fnList []string
	for f := range c.funcs {
		fnList = append(fnList, f)
	}
	sort.Strings(fnList)
	if assumptions == nil {
		assumptions = []string{}
	}
	if trusted == nil {
		trusted = []string{}
	}
	if c.notes == nil {
		c.notes = []string{}
	}
	if c.observed == nil {
		c.observed = []string{}
	}
	ev := map[string]any{
		"property_id": c.Prop,
		"tier":        c.Tier,
		"seed":        seedFromEnv(),
		"level":       "other",
		"wall_s":      time.Since(start).Seconds(),
		"violations":  nviol,
		"assumptions": assumptions,
		"coverage": map[string]any{
			"explanation":        explanation,
			"obligations":        len(real),
			"discharged":         discharged,
			"known_findings":     knownHit,
			"functions_analysed": len(fnList),
			"callsites":          c.calls,
			"rule_instances":     ruleInst,
			"positive_controls":  ctl,
			"samples":            samples,
			"exhaustive":         true,
			"trusted_base":       trusted,
			"checker_cmd":        fmt.Sprintf("bin/storagecheck -prop %s -tier %s", c.Prop, c.Tier),
			"notes":              c.notes,
			"observations":       c.observed,
			"packages":           pkgList(c.P),
			"goarch":             c.P.GoArch,
		},
	}
	evDir := filepath.Join(verifDir, "evidence")
	_ = os.MkdirAll(evDir, 0o755)
	b, _ := json.MarshalIndent(ev, "", " ")
	if err := os.WriteFile(filepath.Join(evDir, c.Prop+".json"), b, 0o644); err != nil {
		fmt.Fprintln(os.Stderr, "cannot write evidence:", err)
		nviol++
	}
	replay := filepath.Join(evDir, c.Prop+".violations.txt")
	if nviol > 0 {
		var sb strings.Builder
		for _, o := range viol {
			tag := "VIOLATED"
			if o.Status == Undecided {
				tag = "UNDECIDED"
			}
			fmt.Fprintf(&sb, "%s rule=%s construct=%s\n  at %s\n  why: %s\n", tag, o.Rule, o.Construct, o.Pos, o.Why)
			if o.Path != "" {
				fmt.Fprintf(&sb, "  path: %s\n", o.Path)
			}
		}
		_ = os.WriteFile(replay, []byte(sb.String()), 0o644)
		fmt.Print(sb.String())
		fmt.Printf("VIOLATION property=%s replay=%s\n", c.Prop, replay)
		return Outcome{nviol, 1}
	}
	_ = os.Remove(replay)
	fmt.Printf("OK property=%s tier=%s obligations=%d discharged=%d known_findings=%d functions=%d\n",
		c.Prop, c.Tier, len(real), discharged, knownHit, len(fnList))
	return Outcome{0, 0}
}

func pkgList(p *Prog) []string {
	var out []string
	for _, pk := range p.All {
		out = append(out, fmt.Sprintf("%s (%d files)", pk.PkgPath, len(pk.Syntax)))
	}
	sort.Strings(out)
	return out
}

func seedFromEnv() int {
	var n int
	fmt.Sscanf(os.Getenv("VERIF_SEED"), "%d", &n)
	return n
}
