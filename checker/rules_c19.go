package main

import (
	"fmt"
	"go/token"
	"go/types"

	"golang.org/x/tools/go/ssa"
)

func init() {
	register(&Property{
		ID:          "C19",
		Title:       "In-memory object store answers queries like the bolt-backed store",
		Technique:   "static analysis: the bolt store's paging/count/comparator rules re-applied to objectz (sibling agreement), typed-nil-in-interface rule for the null test, use-before-nil-check contradiction rule, decision tables of the five object comparators compared with the bolt comparators' documented table",
		LevelText:   "Result equality of two engines is behavioural; what is decided is that the second engine repeats the first one's decisions: the same paging defaults and overflow-free window arithmetic, a total count independent of paging, comparators with the identical 24-case decision table and the id tie-break, a null test that can actually be true for boxed nil pointers, and no use of the iterator before its nil check. Added later: the compound comparator is decided by running it over given answers of three field comparators. Added in rounds 8-9: SORTWHOLE and CACHEKEY for the in-memory store; the answer form of IsNil (NULL). Added in round 10: every field comparator built has its direction stored from a value (CMPDIR); a make whose size is a difference needs the difference known non-negative (MAKENEG, seeded control pair). Added in round 11: an iterator handed out as a concrete pointer is never the nil pointer (ITERNIL). Added in round 13: a slice sent on a channel is not refilled by the sender (SENTSLICE); no read entry point writes a shared store object (READPATH, as in C18: answers do not depend on earlier queries).",
		LevelNote:   "Trusted: go/types, x/tools SSA, llrb, the DECIDE interpreter. Not decided: evaluation of filters on real objects (shared ast code: C01), iteration order of the caller's iterator.",
		DesignRef:   "DESIGN.md C19",
		Explanation: "Sites: the paging normalisation of the objectz scanner (expanded into the functions that use it), memSortingScanner.Scan, ObjectCursor.IsNil and all ObjectSymbol.Eval implementers, the five object*SymbolComparator.compare methods, ObjectStore.newRowComparator.",
		Trusted:     []string{"go/types", "golang.org/x/tools/go/ssa v0.29.0", "github.com/biogo/store/llrb"},
		Rules:       rulesC19,
		Controls: []controlExpect{
			{"C19.NULL", "zzControlBadIsNilC19", true},
			{"C19.CACHEKEY", "zzControlBad_C19_CACHEKEY", true},
			{"C19.CACHEKEY", "zzControlGood_C19_CACHEKEY", false},
			{"C19.MAKENEG", "zzControlBad_C19_MAKENEG", true},
			{"C19.MAKENEG", "zzControlGood_C19_MAKENEG", false},
		},
	})
}

func rulesC19(c *Ctx) {
	ruleSentSliceNotReused(c, "C19.SENTSLICE", "objectz")
	// a query answers from the store's objects and the query text alone: no read entry point writes a shared
	// store object (a parsed-query cache keyed without the paging clauses makes answers depend on earlier queries)
	c.As("C18.READPATH", "C19.READPATH", func() { ruleC18ReadPath(c) })
	p := c.P
	rulePagingArith(c, "C19.PAGING.ARITH", "objectz")
	c.Floor("C19.PAGING.ARITH", 1)
	rulePagingDefaults(c, "C19.PAGING.DEFAULTS", "objectz")
	c.Floor("C19.PAGING.DEFAULTS", 4)
	ruleCount(c, "C19.PAGING.COUNT", "objectz")
	c.Floor("C19.PAGING.COUNT", 1)
	ruleComparators(c, "C19.CMP", "objectz", "compare")
	ruleComparatorDirectionSet(c, "C19.CMPDIR", "objectz", "compare")
	ruleMakeNonNeg(c, "C19.MAKENEG", "objectz")
	ruleIteratorNotTypedNil(c, "C19.ITERNIL", "objectz")
	c.Floor("C19.CMP", 5)
	ruleIdTieBreak(c, "C19.TIEBREAK", p.SSAFunc(p.Method("objectz", "ObjectStore", "newRowComparator")))
	ruleRowComparatorFirstNonZero(c, "C19.CMP", p.SSAFunc(p.Method("objectz", "compoundObjectComparator", "compare")))
	ruleEvalPure(c, "C19.PURE", "ast", "objectz")
	ruleBoundedResultTree(c, "C19.BOUNDEDPAGE", "objectz")
	ruleSortWhole(c, "C19.SORTWHOLE", "objectz")
	ruleCacheKey(c, "C19.CACHEKEY", "objectz")
	ruleC19Null(c)
	ruleUseBeforeCheck(c, "C19.USEBEFORECHECK", c.prodFuncs("objectz"))
	ruleC19IteratorTotal(c)
}

// ruleC19Null: an `== nil` on an interface all of whose producers box a pointer cannot detect null.
func ruleC19Null(c *Ctx) {
	p := c.P
	cg := p.CallGraph()
	evalM := p.Method("objectz", "ObjectSymbol", "Eval")
	boxes := 0
	total := 0
	var boxed []types.Type
	for _, f := range cg.Implementers(evalM) {
		fn := p.SSA.FuncValue(f)
		if fn == nil {
			continue
		}
		for _, r := range returnsOf(fn) {
			total++
			if mi, ok := r.Results[0].(*ssa.MakeInterface); ok {
				if _, isPtr := mi.X.Type().Underlying().(*types.Pointer); isPtr {
					boxes++
					dup := false
					for _, b := range boxed {
						if types.Identical(b, mi.X.Type()) {
							dup = true
						}
					}
					if !dup && !isControl(FnName(fn)) {
						boxed = append(boxed, mi.X.Type())
					}
				}
			}
		}
	}
	c.Note(fmt.Sprintf("C19.NULL: %d/%d ObjectSymbol.Eval returns box a pointer into `any`", boxes, total))
	for _, fn := range c.prodFuncs("objectz") {
		if fn.Name() != "IsNil" || fn.Signature.Recv() == nil || fn.Signature.Results().Len() != 1 {
			continue
		}
		name := FnName(fn)
		c.Analysed(name)
		if boxes == 0 {
			c.OK("C19.NULL", name, p.Pos(fn.Pos()), "symbol producers do not box pointers: interface nil comparison is exact")
			continue
		}
		// the interface value under test: an `any`-typed call result compared with nil
		var val ssa.Value
		for _, b := range fn.Blocks {
			for _, in := range b.Instrs {
				if bo, ok := in.(*ssa.BinOp); ok && (bo.Op == token.EQL || bo.Op == token.NEQ) {
					for _, pair := range [][2]ssa.Value{{bo.X, bo.Y}, {bo.Y, bo.X}} {
						if isNilConst(pair[1]) {
							if _, isIface := pair[0].Type().Underlying().(*types.Interface); isIface {
								val = pair[0]
							}
						}
					}
				}
			}
		}
		inspects := func(in ssa.Instruction) bool {
			switch x := in.(type) {
			case *ssa.TypeAssert:
				return val != nil && x.X == val
			case ssa.CallInstruction:
				if cal, _ := calleeOf(x.Common()); cal != nil && cal.Pkg() != nil && cal.Pkg().Path() == "reflect" && cal.Name() == "ValueOf" {
					return true
				}
			}
			return false
		}
		ri := reachWithout(fn, inspects)
		ok := true
		for _, r := range returnsOf(fn) {
			if b, isConst := boolConst(r.Results[0]); isConst && b {
				continue
			}
			if ri.Reaches(r) {
				ok = false
			}
			// the answer itself must not be the interface-level comparison (`val == nil` on the boxed value: false
			// for a typed nil pointer) — as it is in a type-switch clause that lists several pointer types, where
			// the clause variable keeps the interface type
			for _, leaf := range phiLeaves(r.Results[0]) {
				if bo, isB := leaf.(*ssa.BinOp); isB && (bo.Op == token.EQL || bo.Op == token.NEQ) {
					for _, pair := range [][2]ssa.Value{{bo.X, bo.Y}, {bo.Y, bo.X}} {
						if _, isIface := pair[0].Type().Underlying().(*types.Interface); isIface && isNilConst(pair[1]) {
							ok = false
						}
					}
				}
			}
		}
		// an inspection by type assertions must cover every pointer type the symbols can box
		usesReflect := false
		var asserted []types.Type
		for _, b := range fn.Blocks {
			for _, in := range b.Instrs {
				switch x := in.(type) {
				case *ssa.TypeAssert:
					if val != nil && x.X == val {
						asserted = append(asserted, x.AssertedType)
					}
				case ssa.CallInstruction:
					if cal, _ := calleeOf(x.Common()); cal != nil && cal.Pkg() != nil && cal.Pkg().Path() == "reflect" {
						usesReflect = true
					}
				}
			}
		}
		if ok && !usesReflect && !isControl(name) {
			for _, bt := range boxed {
				covered := false
				for _, at := range asserted {
					if types.Identical(at, bt) {
						covered = true
					}
				}
				if !covered {
					ok = false
					c.Bad("C19.NULL", name+": "+bt.String(), p.Pos(fn.Pos()), "the null test inspects boxed pointers by type assertion but does not cover "+bt.String()+", which a symbol kind can return: a null field of that type is never reported as null")
				}
			}
			if !ok {
				continue
			}
		}
		c.Check(ok, "C19.NULL", name, p.Pos(fn.Pos()), "every answer other than `true` is given after inspecting the boxed pointer (reflect / type assertion)",
			"IsNil can answer `not null` from an interface==nil comparison alone although every symbol boxes a typed pointer: `field = null` never matches and `!= null` always does")
	}
	c.Floor("C19.NULL", 1)
}

// ruleUseBeforeCheck: a value that is nil-tested must not be used as a receiver (or dereferenced)
// on a path that leads to that test.
func ruleUseBeforeCheck(c *Ctx, rule string, fns []*ssa.Function) {
	p := c.P
	n := 0
	for _, fn := range fns {
		var fi *FactInfo
		// values tested against nil
		tested := map[ssa.Value][]*ssa.BinOp{}
		for _, b := range fn.Blocks {
			for _, in := range b.Instrs {
				if bo, ok := in.(*ssa.BinOp); ok && (bo.Op == token.EQL || bo.Op == token.NEQ) && isNilConst(bo.Y) {
					if len(b.Instrs) > 0 {
						if iff, isIf := b.Instrs[len(b.Instrs)-1].(*ssa.If); isIf && iff.Cond == ssa.Value(bo) {
							tested[bo.X] = append(tested[bo.X], bo)
						}
					}
				}
			}
		}
		for v, tests := range tested {
			if _, isParam := v.(*ssa.Parameter); isParam && v == ssa.Value(firstParam(fn)) {
				continue // nil receivers are a deliberate idiom (SortByNode etc.)
			}
			for _, ref := range *v.Referrers() {
				var use ssa.Instruction
				switch x := ref.(type) {
				case ssa.CallInstruction:
					if x.Common().IsInvoke() && x.Common().Value == v {
						use = x
					}
				case *ssa.FieldAddr:
					if x.X == v {
						use = x
					}
				case *ssa.UnOp:
					if x.Op == token.MUL && x.X == v {
						use = x
					}
				}
				if use == nil {
					continue
				}
				if fi == nil {
					fi = ComputeFacts(fn)
					c.Analysed(FnName(fn))
				}
				if fi.Holds(use.Block(), Fact{"nonnil", v, true}) {
					continue
				}
				// can the use reach one of the tests?
				for _, t := range tests {
					ri := reachWithoutFrom(fn, use, func(ssa.Instruction) bool { return false })
					reaches := ri.entryReach[t.Block()] || (t.Block() == use.Block() && instrIndex(t) > instrIndex(use))
					if reaches {
						n++
						c.Bad(rule, FnName(fn)+": "+describeValue(v), p.Pos(use.Pos()), "the value is used (method call / dereference) before the nil test at "+p.Pos(t.Pos())+" on the same path: either the test is dead or the use panics")
					}
				}
			}
		}
	}
	if n == 0 {
		c.OK(rule, "objectz", "-", "no value is used before its own nil test")
	}
}

func firstParam(fn *ssa.Function) *ssa.Parameter {
	if len(fn.Params) > 0 && fn.Signature.Recv() != nil {
		return fn.Params[0]
	}
	return nil
}

// ruleC19IteratorTotal: the in-memory scan primes its cursor with iterator.Current() BEFORE the first
// IsValid() test (the bolt-backed store returns an empty result for an empty collection, and so must this
// one).  Current() of every object iterator is therefore total: it never indexes a slice or array without
// a bound established on the path.
func ruleC19IteratorTotal(c *Ctx) {
	p := c.P
	n := 0
	for _, fn := range c.prodFuncs("objectz") {
		if fn.Name() != "Current" || fn.Signature.Recv() == nil || fn.Parent() != nil || fn.Signature.Params().Len() != 0 {
			continue
		}
		n++
		name := FnName(fn)
		c.Analysed(name)
		fi := factsOf(fn)
		bad := false
		for _, b := range fn.Blocks {
			for _, in := range b.Instrs {
				var idx ssa.Value
				switch x := in.(type) {
				case *ssa.IndexAddr:
					idx = x.Index
				case *ssa.Index:
					idx = x.Index
				default:
					continue
				}
				guarded := fi.HoldsWhere(b, func(f Fact) bool {
					bo, ok := f.V.(*ssa.BinOp)
					if !ok || f.Kind != "true" {
						return false
					}
					switch bo.Op {
					case token.LSS, token.LEQ, token.GTR, token.GEQ:
						return bo.X == idx || bo.Y == idx || fi.canon(bo.X) == fi.canon(idx) || fi.canon(bo.Y) == fi.canon(idx)
					}
					return false
				})
				if !guarded {
					bad = true
					c.Bad("C19.ITERTOTAL", name+": index", p.Pos(in.Pos()), "Current() indexes with "+describeValue(idx)+" without a bound on the path: the scan calls Current() before its first IsValid() test, so a query over an EMPTY collection panics here where the bolt-backed store returns an empty result")
				}
			}
		}
		if !bad {
			c.OK("C19.ITERTOTAL", name, p.Pos(fn.Pos()), "no unguarded index expression: Current() is safe to call on an exhausted or empty iterator")
		}
	}
	c.CallSites(n)
	c.Floor("C19.ITERTOTAL", 1)
}
