package main

import (
	"fmt"
	"go/constant"
	"go/token"
	"go/types"
	"os"
	"strings"

	"golang.org/x/tools/go/ssa"
)

// DECIDE: a path-sensitive abstract interpreter for small loop-free functions whose tracked
// values are only compared. The rule supplies an oracle for the leaf values (a pointer is nil or
// not, an opaque comparison has one of its outcomes, a flag is true/false); the engine follows the
// single feasible path and returns the abstract results. Anything it cannot evaluate makes the
// run "undecided" — never guessed.

type AV struct {
	Kind string // "const" | "nil" | "nonnil" | "sym" | "tuple" | "unknown"
	C    constant.Value
	Sym  string
	Neg  bool  // for sym: arithmetic negation
	Off  int64 // for sym: a constant added to it (i+1)
	Tup  []AV
	Fn   *ssa.Function // Kind "func": a decided function value
	Bind []AV          // Kind "func": what a closure has captured, indexed like Fn.FreeVars
	// Kind "struct": field path (".f0", ".f1.f0") -> value
	Fields map[string]AV
	// Dyn: the dynamic type, once the value has been boxed in an interface on the decided path
	Dyn types.Type
}

func avConst(c constant.Value) AV { return AV{Kind: "const", C: c} }
func avBool(b bool) AV            { return AV{Kind: "const", C: constant.MakeBool(b)} }
func avInt(i int64) AV            { return AV{Kind: "const", C: constant.MakeInt64(i)} }

func (a AV) String() string {
	switch a.Kind {
	case "const":
		return a.C.ExactString()
	case "sym":
		if a.Neg {
			return "-" + a.Sym
		}
		return a.Sym
	}
	return a.Kind
}

type Oracle func(v ssa.Value) (AV, bool)

type decideRun struct {
	depth  int
	fn     *ssa.Function
	oracle Oracle
	pred   *ssa.BasicBlock
	cur    *ssa.BasicBlock
	memo   map[ssa.Value]AV
	steps  int
	err    string
	// calls: invoked for call instructions executed on the path (for effect tracing)
	onCall func(call ssa.CallInstruction)
	trace  []ssa.Instruction
	// allocs (root run only): the objects whose addresses were handed out as "alloc:<ptr>" values
	allocs map[string]*ssa.Alloc
	// iteration mode (DecideIteration): start at the loop header; stop when it is entered again or left
	iterHeader *ssa.BasicBlock
	iterLoop   map[*ssa.BasicBlock]bool
	iterNext   map[*ssa.Phi]AV // value of each header phi on the back edge taken
	iterExited bool
	// eventsOnly: the caller wants the executed calls, not the results (DecideCalls)
	eventsOnly bool
	// parent / argVals: for a helper run, the run that called it and the caller's value bound to each parameter
	parent  *decideRun
	argVals map[ssa.Value]ssa.Value
	// mem: what the decided path has stored into local variables that live in memory (structs built
	// field by field, result slots): address key -> value
	mem map[string]AV
	// live: address keys of the objects allocated on this run's path
	live map[string]bool
}

// addrKey names a location inside a local Alloc (the alloc itself or a field path in it).
func (r *decideRun) addrKey(v ssa.Value) (string, bool) {
	switch x := v.(type) {
	case *ssa.Alloc:
		return fmt.Sprintf("a%p", x), true
	case *ssa.FieldAddr:
		if k, ok := r.addrKey(x.X); ok {
			return fmt.Sprintf("%s.f%d", k, x.Field), true
		}
	default:
		// a pointer value that is known to be the address of a local object (handed through a variable,
		// a result slot or a phi)
		if _, isPtr := v.Type().Underlying().(*types.Pointer); isPtr {
			saved := r.err
			a := r.eval(v)
			r.err = saved
			if a.Kind == "nonnil" && strings.HasPrefix(a.Sym, "alloc:") {
				return "a" + strings.TrimPrefix(a.Sym, "alloc:"), true
			}
		}
	}
	return "", false
}

func (r *decideRun) storeMem(key string, a AV) {
	if r.mem == nil {
		r.mem = map[string]AV{}
	}
	if a.Kind == "struct" {
		for k := range r.mem {
			if strings.HasPrefix(k, key+".f") {
				delete(r.mem, k)
			}
		}
		for suffix, fv := range a.Fields {
			r.mem[key+suffix] = fv
		}
		r.mem[key] = AV{Kind: "struct"}
		return
	}
	r.mem[key] = a
}

// liveBase: was the object behind this address key allocated on the decided path (in this run or in a run it
// was called from)?  Only then do its never-written parts hold their zero value; an object that existed before
// the decided stretch began (iteration mode, a helper handed a pointer) holds what its earlier life left there.
func (r *decideRun) liveBase(key string) bool {
	base := key
	if i := strings.Index(key, ".f"); i >= 0 {
		base = key[:i]
	}
	for run := r; run != nil; run = run.parent {
		if run.live[base] {
			return true
		}
	}
	return false
}

func (r *decideRun) loadMem(key string, t types.Type) (AV, bool) {
	live := r.liveBase(key)
	if st, isStruct := t.Underlying().(*types.Struct); isStruct {
		out := AV{Kind: "struct", Fields: map[string]AV{}}
		for k, v := range r.mem {
			if strings.HasPrefix(k, key+".f") {
				out.Fields[strings.TrimPrefix(k, key)] = v
			}
		}
		// fields never written hold their zero value
		for i := 0; i < st.NumFields(); i++ {
			suffix := fmt.Sprintf(".f%d", i)
			if _, has := out.Fields[suffix]; !has && live {
				if z, ok := zeroAV(st.Field(i).Type()); ok {
					out.Fields[suffix] = z
				}
			}
		}
		return out, true
	}
	if a, ok := r.mem[key]; ok {
		return a, true
	}
	if !live {
		// a part of an object the package initialiser built and nothing else writes
		if a, ok := r.initObjectPart(key); ok {
			return a, true
		}
		return AV{}, false
	}
	// an Alloc starts zeroed
	return zeroAV(t)
}

func zeroAV(t types.Type) (AV, bool) {
	switch u := t.Underlying().(type) {
	case *types.Basic:
		switch {
		case u.Info()&types.IsBoolean != 0:
			return avBool(false), true
		case u.Info()&types.IsInteger != 0:
			return avInt(0), true
		case u.Info()&types.IsString != 0:
			return avConst(constant.MakeString("")), true
		}
	case *types.Pointer, *types.Interface, *types.Slice, *types.Map, *types.Signature, *types.Chan:
		return AV{Kind: "nil"}, true
	}
	return AV{}, false
}

func (r *decideRun) fail(format string, args ...any) AV {
	if r.err == "" {
		r.err = fmt.Sprintf(format, args...)
	}
	return AV{Kind: "unknown"}
}

func (r *decideRun) eval(v ssa.Value) AV {
	if a, ok := r.memo[v]; ok {
		return a
	}
	a := r.eval1(v)
	if a.Kind != "unknown" {
		r.memo[v] = a
	}
	return a
}

func (r *decideRun) eval1(v ssa.Value) AV {
	if a, ok := r.oracle(v); ok {
		return a
	}
	if a, ok := r.foldValue(v); ok {
		return a
	}
	switch x := v.(type) {
	case *ssa.Const:
		if x.IsNil() {
			return AV{Kind: "nil"}
		}
		if x.Value == nil {
			// zero value of a non-nillable type
			if b, ok := x.Type().Underlying().(*types.Basic); ok {
				switch {
				case b.Info()&types.IsBoolean != 0:
					return avBool(false)
				case b.Info()&types.IsInteger != 0:
					return avInt(0)
				}
			}
			return AV{Kind: "sym", Sym: "zero:" + x.Type().String()}
		}
		return avConst(x.Value)
	case *ssa.Phi:
		if x.Block() != r.cur && r.memo[x].Kind == "" {
			return r.fail("phi %s read outside its block", x.Name())
		}
		for i, p := range x.Block().Preds {
			if p == r.pred {
				return r.eval(x.Edges[i])
			}
		}
		return r.fail("phi %s: predecessor not found", x.Name())
	case *ssa.UnOp:
		switch x.Op {
		case token.NOT:
			a := r.eval(x.X)
			if a.Kind == "const" && a.C.Kind() == constant.Bool {
				return avBool(!constant.BoolVal(a.C))
			}
			return r.fail("! of %s", a)
		case token.SUB:
			a := r.eval(x.X)
			if a.Kind == "const" {
				return avConst(constant.UnaryOp(token.SUB, a.C, 0))
			}
			if a.Kind == "sym" {
				a.Neg = !a.Neg
				return a
			}
			return r.fail("- of %s", a)
		}
		// a pointer the oracle named ("ptr:v0"): what it points to is the symbol of that name
		if x.Op == token.MUL {
			saved := r.err
			a := r.eval(x.X)
			r.err = saved
			if a.Kind == "nonnil" && strings.HasPrefix(a.Sym, "ptr:") {
				return AV{Kind: "sym", Sym: strings.TrimPrefix(a.Sym, "ptr:")}
			}
		}
		// inside a helper: a field of an object the caller handed in (node.op read by a helper method): the
		// rule may know it by the caller's name for that object
		if x.Op == token.MUL && decideFieldHook != nil {
			if fa, isFA := x.X.(*ssa.FieldAddr); isFA {
				if origin := r.originOf(fa.X); origin != nil {
					if f, _ := fieldOfAddr(fa); f != nil {
						if a, ok := decideFieldHook(origin, f); ok {
							return a
						}
					}
				}
			}
		}
		// an element of a package-level ARRAY that is filled once, in init, at constant indexes (a dispatch table
		// indexed by an enumeration), read at a decided index
		if x.Op == token.MUL {
			if ia, isIA := x.X.(*ssa.IndexAddr); isIA {
				if g, isG := ia.X.(*ssa.Global); isG {
					if entries, okT := constArrayTable(g); okT {
						saved := r.err
						idx := r.eval(ia.Index)
						r.err = saved
						if idx.Kind == "const" && idx.C.Kind() == constant.Int {
							for _, e := range entries {
								if constant.Compare(e.key, token.EQL, idx.C) {
									return r.eval(e.val)
								}
							}
							if isNillable(x.Type()) {
								return AV{Kind: "nil"}
							}
						}
					}
				}
			}
		}
		return r.fail("load/unop %s not covered by the oracle (%s)", x.Name(), x.String())
	case *ssa.BinOp:
		a, b := r.eval(x.X), r.eval(x.Y)
		if a.Kind == "unknown" || b.Kind == "unknown" {
			return AV{Kind: "unknown"}
		}
		// nil comparisons
		if x.Op == token.EQL || x.Op == token.NEQ {
			if a.Kind == "sym" && b.Kind == "sym" && a.Sym != b.Sym && decideSymCompare != nil {
				if res, ok := decideSymCompare(a, b, x.Op); ok {
					return avBool(res)
				}
			}
			eq, ok := avEqual(a, b)
			if ok {
				return avBool(eq == (x.Op == token.EQL))
			}
			return r.fail("cannot compare %s and %s", a, b)
		}
		if a.Kind == "const" && b.Kind == "const" {
			switch x.Op {
			case token.LSS, token.GTR, token.LEQ, token.GEQ:
				return avBool(constant.Compare(a.C, x.Op, b.C))
			case token.ADD, token.SUB, token.MUL:
				return avConst(constant.BinaryOp(a.C, x.Op, b.C))
			case token.LAND, token.LOR, token.AND, token.OR:
				return avConst(constant.BinaryOp(a.C, x.Op, b.C))
			}
		}
		if a.Kind == "sym" && b.Kind == "sym" && decideSymCompare != nil {
			if res, ok := decideSymCompare(a, b, x.Op); ok {
				return avBool(res)
			}
		}
		// a symbol moved by a constant (loop indexes: i+1, i-1)
		if (x.Op == token.ADD || x.Op == token.SUB) && a.Kind == "sym" && !a.Neg && b.Kind == "const" && b.C.Kind() == constant.Int {
			if k, exact := constant.Int64Val(b.C); exact {
				if x.Op == token.SUB {
					k = -k
				}
				a.Off += k
				return a
			}
		}
		if x.Op == token.ADD && b.Kind == "sym" && !b.Neg && a.Kind == "const" && a.C.Kind() == constant.Int {
			if k, exact := constant.Int64Val(a.C); exact {
				b.Off += k
				return b
			}
		}
		if x.Op == token.SUB && a.Kind == "const" && constant.Sign(a.C) == 0 && b.Kind == "sym" {
			b.Neg = !b.Neg
			return b
		}
		return r.fail("binop %s on %s, %s", x.Op, a, b)
	case *ssa.Convert:
		return r.eval(x.X)
	case *ssa.ChangeType:
		return r.eval(x.X)
	case *ssa.ChangeInterface:
		return r.eval(x.X)
	case *ssa.Extract:
		t := r.eval(x.Tuple)
		if t.Kind == "tuple" && x.Index < len(t.Tup) {
			return t.Tup[x.Index]
		}
		return r.fail("extract from %s", t)
	case *ssa.Call:
		if a, ok := r.foldCall(x); ok {
			return a
		}
		if bi, isBuiltin := x.Call.Value.(*ssa.Builtin); isBuiltin {
			if bi.Name() == "len" && len(x.Call.Args) == 1 {
				saved := r.err
				a := r.eval(x.Call.Args[0])
				r.err = saved
				if str, isS := avString(a); isS {
					return avInt(int64(len(str)))
				}
				if a.Kind == "list" {
					return avInt(int64(len(a.Tup)))
				}
			}
			if (bi.Name() == "len" || bi.Name() == "cap") && len(x.Call.Args) == 1 {
				if n, ok := staticLen(x.Call.Args[0], 0); ok {
					return avInt(n)
				}
			}
			return r.fail("builtin %s not covered by the oracle", bi.Name())
		}
		// a small helper of the repository: decide it in place with the actual arguments
		sc := x.Call.StaticCallee()
		var recvAV *AV
		if sc == nil && x.Call.IsInvoke() {
			// an interface method call on a value whose dynamic type the path has decided: the method of that type
			saved := r.err
			rv := r.eval(x.Call.Value)
			r.err = saved
			if rv.Dyn != nil && rv.Kind != "unknown" {
				if m := r.fn.Prog.LookupMethod(rv.Dyn, x.Call.Method.Pkg(), x.Call.Method.Name()); m != nil && m.Blocks != nil && inModule(m) {
					sc = m
					recvAV = &rv
				}
			}
		}
		if sc == nil && !x.Call.IsInvoke() {
			// a call through a decided function value (an entry of a dispatch table)
			if fv := r.eval(x.Call.Value); fv.Kind == "func" && fv.Fn != nil {
				sc = fv.Fn
			} else {
				r.err = ""
			}
		}
		if sc == nil || sc.Blocks == nil || r.depth >= 6 {
			// an external function applied to symbolic operands (strings.Contains(v0, v1) inside a table
			// entry, or the function itself stored in the table): the rule may know the answer
			if decideSymCall != nil && !x.Call.IsInvoke() {
				var callee *types.Func
				if sc != nil {
					callee = methodOf(sc)
				} else {
					callee, _ = calleeOf(x.Common())
				}
				if callee != nil {
					saved := r.err
					args := make([]AV, len(x.Call.Args))
					for i, a := range x.Call.Args {
						args[i] = r.eval(a)
					}
					r.err = saved
					if a, ok := decideSymCall(callee, args); ok {
						return a
					}
				}
			}
			return r.fail("call %s not covered by the oracle (%s)", x.Name(), x.String())
		}
		var fval AV
		if _, isClosure := x.Call.Value.(*ssa.MakeClosure); (x.Call.StaticCallee() == nil || isClosure) && recvAV == nil {
			fval = r.eval(x.Call.Value)
		}
		callArgs := x.Call.Args
		if recvAV != nil {
			callArgs = append([]ssa.Value{x.Call.Value}, x.Call.Args...)
		}
		sub := r.subRun(sc, callArgs, fval)
		res, err := sub.run()
		// what the helper stored into objects it allocated (and returns) stays readable by the caller
		for k, v := range sub.mem {
			if r.mem == nil {
				r.mem = map[string]AV{}
			}
			if _, have := r.mem[k]; !have {
				r.mem[k] = v
			}
		}
		if err != "" {
			return r.fail("helper %s: %s", sc.Name(), err)
		}
		if len(res) == 1 {
			return res[0]
		}
		return AV{Kind: "tuple", Tup: res}
	case *ssa.MakeInterface:
		a := r.eval(x.X)
		if a.Kind == "nil" {
			return AV{Kind: "nonnil", Dyn: x.X.Type()} // typed nil in an interface is a non-nil interface
		}
		if a.Dyn == nil {
			a.Dyn = x.X.Type()
		}
		return a
	case *ssa.Field:
		a := r.eval(x.X)
		if a.Kind == "struct" {
			prefix := fmt.Sprintf(".f%d", x.Field)
			if fv, ok := a.Fields[prefix]; ok {
				return fv
			}
			sub := AV{Kind: "struct", Fields: map[string]AV{}}
			for k, v := range a.Fields {
				if strings.HasPrefix(k, prefix+".f") {
					sub.Fields[strings.TrimPrefix(k, prefix)] = v
				}
			}
			if len(sub.Fields) > 0 {
				return sub
			}
		}
		return r.fail("field %d of %s", x.Field, a)
	case *ssa.Alloc:
		// the address of a local / freshly allocated object: never nil
		root := r
		for root.parent != nil {
			root = root.parent
		}
		if root.allocs == nil {
			root.allocs = map[string]*ssa.Alloc{}
		}
		root.allocs[fmt.Sprintf("alloc:%p", x)] = x
		return AV{Kind: "nonnil", Sym: fmt.Sprintf("alloc:%p", x)}
	case *ssa.Function:
		return AV{Kind: "func", Fn: x}
	case *ssa.MakeClosure:
		if f, ok := x.Fn.(*ssa.Function); ok {
			out := AV{Kind: "func", Fn: f}
			saved := r.err
			for _, b := range x.Bindings {
				a := r.eval(b)
				if a.Kind == "unknown" || a.Kind == "" {
					a = AV{Kind: "sym", Sym: "bound:" + b.Name()}
				}
				out.Bind = append(out.Bind, a)
			}
			r.err = saved
			return out
		}
	case *ssa.Lookup:
		// a lookup with a decided key in a package-level table that is filled once, in init, with
		// constant keys (dispatch tables)
		if ld, ok := x.X.(*ssa.UnOp); ok && ld.Op == token.MUL {
			if g, ok := ld.X.(*ssa.Global); ok {
				key := r.eval(x.Index)
				if key.Kind != "const" {
					return r.fail("table lookup %s with an undecided key", x.Name())
				}
				entries, okT := constTable(g)
				if !okT {
					return r.fail("table %s is not a constant table", g.Name())
				}
				var hit ssa.Value
				for _, e := range entries {
					if constant.Compare(e.key, token.EQL, key.C) {
						hit = e.val
					}
				}
				var val AV
				if hit != nil {
					if sv, okS := structLiteralAV(r, hit); okS {
						val = sv
					} else {
						val = r.eval(hit)
					}
				} else {
					val = AV{Kind: "nil"}
					if _, isFn := x.Type().Underlying().(*types.Signature); !isFn {
						if tup, isTup := x.Type().(*types.Tuple); !isTup || !isNillable(tup.At(0).Type()) {
							if !x.CommaOk && !isNillable(x.Type()) {
								return r.fail("table lookup %s misses and the zero value is not modelled", x.Name())
							}
						}
					}
				}
				if x.CommaOk {
					return AV{Kind: "tuple", Tup: []AV{val, avBool(hit != nil)}}
				}
				return val
			}
		}
	}
	return r.fail("value %s (%T) not covered by the oracle", v.Name(), v)
}

// structLiteralAV: a table entry that is a struct literal built in init (alloc, one store per field, load):
// the struct value with the fields that were given constants / function values.
func structLiteralAV(r *decideRun, v ssa.Value) (AV, bool) {
	ld, ok := v.(*ssa.UnOp)
	if !ok || ld.Op != token.MUL {
		return AV{}, false
	}
	al, ok := ld.X.(*ssa.Alloc)
	if !ok {
		return AV{}, false
	}
	st, ok := derefType(al.Type()).Underlying().(*types.Struct)
	if !ok {
		return AV{}, false
	}
	out := AV{Kind: "struct", Fields: map[string]AV{}}
	for _, ref := range *al.Referrers() {
		fa, isFa := ref.(*ssa.FieldAddr)
		if !isFa {
			continue
		}
		for _, fr := range *fa.Referrers() {
			if s, isSt := fr.(*ssa.Store); isSt && s.Addr == ssa.Value(fa) {
				saved := r.err
				a := r.eval(s.Val)
				r.err = saved
				if a.Kind != "unknown" && a.Kind != "" {
					out.Fields[fmt.Sprintf(".f%d", fa.Field)] = a
				}
			}
		}
	}
	// fields never stored hold their zero value
	for i := 0; i < st.NumFields(); i++ {
		k := fmt.Sprintf(".f%d", i)
		if _, have := out.Fields[k]; have {
			continue
		}
		if b, isB := st.Field(i).Type().Underlying().(*types.Basic); isB {
			switch {
			case b.Info()&types.IsBoolean != 0:
				out.Fields[k] = avBool(false)
			case b.Info()&types.IsInteger != 0:
				out.Fields[k] = avInt(0)
			}
		}
	}
	return out, true
}

func avEqual(a, b AV) (bool, bool) {
	nilness := func(x AV) (isNil, known bool) {
		switch x.Kind {
		case "nil":
			return true, true
		case "nonnil":
			return false, true
		case "func":
			// a decided function value (closure, function reference) is never nil
			return false, x.Fn != nil
		case "list", "regexp":
			return false, true
		}
		return false, false
	}
	an, ak := nilness(a)
	bn, bk := nilness(b)
	if ak && bk {
		if an && bn {
			return true, true
		}
		if an != bn {
			return false, true
		}
		return false, false // two non-nil pointers: identity unknown
	}
	if a.Kind == "const" && b.Kind == "const" {
		return constant.Compare(a.C, token.EQL, b.C), true
	}
	if a.Kind == "sym" && b.Kind == "sym" && a.Sym == b.Sym && a.Neg == b.Neg {
		return a.Off == b.Off, true
	}
	return false, false
}

// Decide runs fn under the oracle and returns the abstract results of the return reached.
func Decide(fn *ssa.Function, oracle Oracle, onCall func(ssa.CallInstruction)) ([]AV, string) {
	r := &decideRun{fn: fn, oracle: oracle, memo: map[ssa.Value]AV{}, onCall: onCall}
	return r.run()
}

func (r *decideRun) run() ([]AV, string) {
	fn := r.fn
	if len(fn.Blocks) == 0 {
		return nil, "no body"
	}
	r.cur = fn.Blocks[0]
	if r.iterHeader != nil {
		r.cur = r.iterHeader
	}
	visited := map[*ssa.BasicBlock]bool{}
	for r.steps = 0; r.steps < 500; r.steps++ {
		if r.iterHeader != nil && r.steps > 0 {
			if r.cur == r.iterHeader {
				// one iteration done: the values the header phis take on the back edge
				r.iterNext = map[*ssa.Phi]AV{}
				for _, in := range r.cur.Instrs {
					phi, ok := in.(*ssa.Phi)
					if !ok {
						break
					}
					for i, p := range phi.Block().Preds {
						if p == r.pred {
							saved := r.err
							r.iterNext[phi] = r.eval(phi.Edges[i])
							r.err = saved
						}
					}
				}
				return nil, ""
			}
			if !r.iterLoop[r.cur] {
				r.iterExited = true
				return nil, ""
			}
		}
		if visited[r.cur] {
			// a new iteration of a loop: everything computed inside it is computed again
			// (phis of the header are re-evaluated below from the values of the back edge, which are
			// read before their memo entries go)
			var phiVals []AV
			var phis []*ssa.Phi
			for _, in := range r.cur.Instrs {
				if phi, ok := in.(*ssa.Phi); ok {
					for i, p := range phi.Block().Preds {
						if p == r.pred {
							phis = append(phis, phi)
							phiVals = append(phiVals, r.eval(phi.Edges[i]))
						}
					}
				}
			}
			for _, b := range fn.Blocks {
				if r.cur.Dominates(b) {
					for _, in := range b.Instrs {
						if v, ok := in.(ssa.Value); ok {
							delete(r.memo, v)
						}
					}
				}
			}
			for i, phi := range phis {
				r.memo[phi] = phiVals[i]
			}
		}
		visited[r.cur] = true
		// evaluate phis eagerly so later reads are memoised
		for _, in := range r.cur.Instrs {
			if phi, ok := in.(*ssa.Phi); ok {
				saved := r.err
				r.eval(phi) // a value nobody branches on may stay unknown
				r.err = saved
			}
		}
		for _, in := range r.cur.Instrs {
			if al, isAl := in.(*ssa.Alloc); isAl {
				if r.live == nil {
					r.live = map[string]bool{}
				}
				r.live[fmt.Sprintf("a%p", al)] = true
			}
		}
		// memory of local variables, in execution order
		for _, in := range r.cur.Instrs {
			switch x := in.(type) {
			case *ssa.Store:
				if key, ok := r.addrKey(x.Addr); ok {
					saved := r.err
					a := r.eval(x.Val)
					r.err = saved
					r.storeMem(key, a)
				}
			case *ssa.Call:
				// a local strings.Builder: its content is part of the path's memory
				r.builderStep(x)
			case *ssa.UnOp:
				if x.Op == token.MUL {
					if key, ok := r.addrKey(x.X); ok {
						// what the path itself stored there comes first; then the oracle; then the zero value of
						// an object allocated on the path
						written := false
						if _, has := r.mem[key]; has {
							written = true
						} else {
							for k := range r.mem {
								if strings.HasPrefix(k, key+".f") {
									written = true
									break
								}
							}
						}
						covered := false
						if !written {
							_, covered = r.oracle(x)
						}
						if !covered {
							if a, okL := r.loadMem(key, x.Type()); okL && (a.Kind != "unknown" || a.Dyn != nil) {
								r.memo[x] = a
							}
						}
					}
				}
			}
		}
		r.trace = append(r.trace, r.cur.Instrs...)
		if r.onCall != nil {
			for _, in := range r.cur.Instrs {
				if ci, ok := in.(ssa.CallInstruction); ok {
					r.onCall(ci)
				}
			}
		}
		last := r.cur.Instrs[len(r.cur.Instrs)-1]
		switch x := last.(type) {
		case *ssa.Return:
			// failures are local to the question asked: what was not needed to get here does not matter
			r.err = ""
			out := make([]AV, len(x.Results))
			for i, v := range x.Results {
				out[i] = r.eval(v)
			}
			if r.err != "" && !r.eventsOnly {
				return nil, r.err
			}
			return out, ""
		case *ssa.If:
			r.err = ""
			c := r.eval(x.Cond)
			if c.Kind != "const" || c.C.Kind() != constant.Bool {
				if r.err == "" {
					r.err = fmt.Sprintf("branch condition %s not decidable", x.Cond.Name())
				}
				return nil, r.err
			}
			r.pred = r.cur
			if constant.BoolVal(c.C) {
				r.cur = r.cur.Succs[0]
			} else {
				r.cur = r.cur.Succs[1]
			}
		case *ssa.Jump:
			r.pred = r.cur
			r.cur = r.cur.Succs[0]
		case *ssa.Panic:
			return nil, "reaches panic"
		default:
			return nil, fmt.Sprintf("unsupported terminator %T", last)
		}
	}
	return nil, "step bound exceeded (loop?)"
}

// subRun prepares the evaluation of a call of sc made on r's path: parameters bound to the evaluated
// arguments, captured variables to what the closure value fval holds, memory as the caller has it.
func (r *decideRun) subRun(sc *ssa.Function, callArgs []ssa.Value, fval AV) *decideRun {
	args := make(map[ssa.Value]AV, len(sc.Params))
	for i, prm := range sc.Params {
		if i < len(callArgs) {
			saved := r.err
			a := r.eval(callArgs[i])
			if a.Kind == "unknown" {
				// a struct handed over by value, built by a literal
				if sv, ok := structLiteralAV(r, callArgs[i]); ok {
					a = sv
				} else if _, isFn := callArgs[i].Type().Underlying().(*types.Signature); isFn && r.parent == nil && suppliedFromOutside(callArgs[i]) {
					// a callback the decided function was itself given, handed on to a helper
					a = AV{Kind: "sym", Sym: "external-func"}
				} else {
					a = AV{Kind: "sym", Sym: "arg:" + callArgs[i].Name()}
				}
			}
			r.err = saved
			args[prm] = a
		}
	}
	for i, fv := range sc.FreeVars {
		if i < len(fval.Bind) {
			args[fv] = fval.Bind[i]
		}
	}
	argVals := map[ssa.Value]ssa.Value{}
	for i, prm := range sc.Params {
		if i < len(callArgs) {
			argVals[prm] = callArgs[i]
		}
	}
	sub := &decideRun{fn: sc, depth: r.depth + 1, memo: map[ssa.Value]AV{}, parent: r, argVals: argVals, oracle: func(v ssa.Value) (AV, bool) {
		if a, ok := args[v]; ok {
			return a, true
		}
		// what the caller's oracle knows about callees (error constructors, predicates) holds in helpers too
		if _, isCall := v.(*ssa.Call); isCall && r.oracle != nil {
			return r.oracle(v)
		}
		// ... and what it knows about loads and type tests of the objects under decision (a rule that
		// recognises them in a helper does so by the helper's own parameter)
		switch v.(type) {
		case *ssa.UnOp, *ssa.TypeAssert:
			if r.oracle != nil {
				return r.oracle(v)
			}
		}
		return AV{}, false
	}}
	if len(r.mem) > 0 {
		sub.mem = make(map[string]AV, len(r.mem))
		for k, v := range r.mem {
			sub.mem[k] = v
		}
	}
	return sub
}

// DecideMem is Decide plus what the decided path stored into memory (address key -> value; the fields of an
// object the oracle named "alloc:NAME" appear under "aNAME.f<i>").
func DecideMem(fn *ssa.Function, oracle Oracle) (res []AV, mem map[string]AV, err string) {
	r := &decideRun{fn: fn, oracle: oracle, memo: map[ssa.Value]AV{}}
	res, err = r.run()
	return res, r.mem, err
}

// DecideTrace is Decide plus the executed instruction sequence and an evaluator for values on it.
func DecideTrace(fn *ssa.Function, oracle Oracle) (res []AV, trace []ssa.Instruction, eval func(ssa.Value) AV, err string) {
	r := &decideRun{fn: fn, oracle: oracle, memo: map[ssa.Value]AV{}}
	res, err = r.run()
	return res, r.trace, func(v ssa.Value) AV { saved := r.err; a := r.eval(v); r.err = saved; return a }, err
}

// CallEvent is one executed call on the decided path, with its arguments evaluated at that moment.
type CallEvent struct {
	Call ssa.CallInstruction
	// Recv: for an interface method call, the receiver as decided on the path
	Recv AV
	Args []AV
	// for arguments that are addresses of objects built on the path: the allocated type and the fields as
	// stored at the moment of the call (".f0", ".f1", ...), indexed like Args
	ArgTypes  []types.Type
	ArgFields []map[string]AV
}

var debugDecide = os.Getenv("STORAGECHECK_DEBUGDECIDE") != ""

// DecideCalls runs fn like Decide and reports, in execution order, the calls selected by want — also those
// made inside functions of the module that the path calls (statically, or through a function value the path
// decides: an entry of a dispatch table, a closure a factory returned), up to three levels deep.  A call
// through a function value that cannot be decided, or a callee that cannot be followed to its end although
// it may make a wanted call, leaves the question undecided.
func DecideCalls(fn *ssa.Function, oracle Oracle, want func(ssa.CallInstruction) bool) ([]CallEvent, string) {
	var evs []CallEvent
	evErr := ""
	r := &decideRun{fn: fn, oracle: oracle, memo: map[ssa.Value]AV{}, eventsOnly: true}
	var visit func(run *decideRun, ci ssa.CallInstruction, depth int)
	record := func(run *decideRun, ci ssa.CallInstruction) {
		ev := CallEvent{Call: ci}
		saved := run.err
		root := run
		for root.parent != nil {
			root = root.parent
		}
		if ci.Common().IsInvoke() {
			ev.Recv = run.eval(ci.Common().Value)
		}
		for _, a := range ci.Common().Args {
			av := run.eval(a)
			ev.Args = append(ev.Args, av)
			var t types.Type
			flds := map[string]AV{}
			if strings.HasPrefix(av.Sym, "alloc:") {
				if al := root.allocs[av.Sym]; al != nil {
					t = derefType(al.Type())
				}
				key := "a" + strings.TrimPrefix(av.Sym, "alloc:")
				for k, v := range run.mem {
					if strings.HasPrefix(k, key+".f") {
						flds[strings.TrimPrefix(k, key)] = v
					}
				}
			}
			ev.ArgTypes = append(ev.ArgTypes, t)
			ev.ArgFields = append(ev.ArgFields, flds)
		}
		run.err = saved
		evs = append(evs, ev)
	}
	visit = func(run *decideRun, ci ssa.CallInstruction, depth int) {
		if debugDecide {
			fmt.Fprintf(os.Stderr, "decide: %*svisit %s in %s\n", depth*2, "", ci.String(), run.fn.Name())
		}
		if want(ci) {
			record(run, ci)
			return
		}
		cc := ci.Common()
		if cc.IsInvoke() {
			return
		}
		if _, isCall := ci.(*ssa.Call); !isCall {
			return // deferred / spawned: not part of the path's own sequence
		}
		if _, isBuiltin := cc.Value.(*ssa.Builtin); isBuiltin {
			return
		}
		callee := cc.StaticCallee()
		var fval AV
		if _, isClosure := cc.Value.(*ssa.MakeClosure); isClosure && callee != nil {
			// a closure called where it is made: what it captured comes with it
			saved := run.err
			fval = run.eval(cc.Value)
			run.err = saved
		}
		if callee == nil {
			saved := run.err
			fval = run.eval(cc.Value)
			run.err = saved
			if debugDecide {
				fmt.Fprintf(os.Stderr, "decide: %*s  function value %s = %s (fn %v) mem=%v\n", depth*2, "", cc.Value.Name(), fval, fval.Fn, run.mem)
			}
			if fval.Kind != "func" || fval.Fn == nil {
				// a callback handed in from outside the decided function cannot make the listener's /
				// store's own calls; a value built on the path could
				if run.parent == nil && suppliedFromOutside(cc.Value) {
					return
				}
				if fval.Kind == "sym" && fval.Sym == "external-func" {
					return
				}
				if evErr == "" {
					evErr = "call through the function value " + cc.Value.Name() + " in " + run.fn.Name() + " could not be decided"
				}
				return
			}
			callee = fval.Fn
		}
		if callee.Blocks == nil || !inModule(callee) {
			return
		}
		if !mayMakeWanted(callee, want, 5, map[*ssa.Function]bool{}) {
			return
		}
		if depth >= 6 {
			if evErr == "" {
				evErr = "calls nested deeper than six levels below " + fn.Name()
			}
			return
		}
		sub := run.subRun(callee, cc.Args, fval)
		sub.eventsOnly = true
		sub.onCall = func(ci2 ssa.CallInstruction) { visit(sub, ci2, depth+1) }
		if _, err := sub.run(); err != "" && evErr == "" {
			evErr = "helper " + callee.Name() + ": " + err
		}
		// what the helper stored into objects it allocated stays readable by the caller
		for k, v := range sub.mem {
			if run.mem == nil {
				run.mem = map[string]AV{}
			}
			if _, have := run.mem[k]; !have {
				run.mem[k] = v
			}
		}
	}
	r.onCall = func(ci ssa.CallInstruction) { visit(r, ci, 0) }
	_, err := r.run()
	if err == "" {
		err = evErr
	}
	return evs, err
}

// suppliedFromOutside: a function value the decided function was given by its caller: a parameter, or, in a
// function literal, a captured parameter of the enclosing function.
func suppliedFromOutside(v ssa.Value) bool {
	switch x := v.(type) {
	case *ssa.Parameter:
		return true
	case *ssa.UnOp:
		// a variable captured by reference
		if fv, ok := x.X.(*ssa.FreeVar); ok && x.Op == token.MUL {
			return suppliedFromOutside(fv)
		}
	case *ssa.FreeVar:
		fn := x.Parent()
		outer := fn.Parent()
		if outer == nil {
			return false
		}
		idx := -1
		for i, fv := range fn.FreeVars {
			if fv == x {
				idx = i
			}
		}
		for _, b := range outer.Blocks {
			for _, in := range b.Instrs {
				mc, ok := in.(*ssa.MakeClosure)
				if !ok || mc.Fn != ssa.Value(fn) || idx < 0 || idx >= len(mc.Bindings) {
					continue
				}
				switch bnd := mc.Bindings[idx].(type) {
				case *ssa.Parameter:
					return true
				case *ssa.FreeVar:
					return suppliedFromOutside(bnd)
				case *ssa.Alloc:
					// the parameter's own variable: its only store is the parameter
					n, fromParam := 0, false
					for _, ref := range *bnd.Referrers() {
						if st, isSt := ref.(*ssa.Store); isSt && st.Addr == ssa.Value(bnd) {
							n++
							_, fromParam = st.Val.(*ssa.Parameter)
						}
					}
					return n == 1 && fromParam
				}
			}
		}
	}
	return false
}

// mayMakeWanted: can fn, or a function it calls statically or creates (closures), make a wanted call?
// Dynamic calls inside count as "may".
func mayMakeWanted(fn *ssa.Function, want func(ssa.CallInstruction) bool, depth int, seen map[*ssa.Function]bool) bool {
	if seen[fn] || fn.Blocks == nil {
		return false
	}
	seen[fn] = true
	for _, b := range fn.Blocks {
		for _, in := range b.Instrs {
			ci, ok := in.(ssa.CallInstruction)
			if !ok {
				continue
			}
			if want(ci) {
				return true
			}
			cc := ci.Common()
			if cc.IsInvoke() {
				continue
			}
			if _, isBuiltin := cc.Value.(*ssa.Builtin); isBuiltin {
				continue
			}
			sc := cc.StaticCallee()
			if sc == nil {
				// an entry of a constant dispatch table: any of the entries
				if targets, okT := tableTargets(cc.Value); okT {
					for _, t := range targets {
						if depth > 0 && inModule(t) && mayMakeWanted(t, want, depth-1, seen) {
							return true
						}
					}
					continue
				}
				// (what a captured variable or parameter of a callee denotes is decided on the path, not here)
				return true
			}
			if depth > 0 && inModule(sc) && mayMakeWanted(sc, want, depth-1, seen) {
				return true
			}
		}
	}
	return false
}

type tableEntry struct {
	key constant.Value
	val ssa.Value
}

var constTableCache = map[*ssa.Global]*struct {
	entries []tableEntry
	ok      bool
}{}

// constTable: the entries of a package-level map that is built by one composite literal in init (all
// keys constant) and never updated or re-assigned anywhere else in its package.
func constTable(g *ssa.Global) ([]tableEntry, bool) {
	if c := constTableCache[g]; c != nil {
		return c.entries, c.ok
	}
	res := &struct {
		entries []tableEntry
		ok      bool
	}{}
	constTableCache[g] = res
	initFn := g.Pkg.Func("init")
	if initFn == nil {
		return nil, false
	}
	var mapVal ssa.Value
	nStores := 0
	for _, m := range g.Pkg.Members {
		fn, isFn := m.(*ssa.Function)
		if !isFn {
			continue
		}
		var all []*ssa.Function
		var add func(f *ssa.Function)
		add = func(f *ssa.Function) {
			all = append(all, f)
			for _, a := range f.AnonFuncs {
				add(a)
			}
		}
		add(fn)
		for _, f := range all {
			for _, b := range f.Blocks {
				for _, in := range b.Instrs {
					switch x := in.(type) {
					case *ssa.Store:
						if x.Addr == ssa.Value(g) {
							nStores++
							if f == initFn {
								mapVal = x.Val
							}
						}
					case *ssa.MapUpdate:
						if ld, ok := x.Map.(*ssa.UnOp); ok && ld.X == ssa.Value(g) {
							return nil, false // updated after construction
						}
					}
				}
			}
		}
	}
	if mapVal == nil || nStores != 1 {
		return nil, false
	}
	for _, b := range initFn.Blocks {
		for _, in := range b.Instrs {
			mu, ok := in.(*ssa.MapUpdate)
			if !ok || mu.Map != mapVal {
				continue
			}
			k, isK := mu.Key.(*ssa.Const)
			if !isK || k.Value == nil {
				return nil, false
			}
			res.entries = append(res.entries, tableEntry{k.Value, mu.Value})
		}
	}
	res.ok = len(res.entries) > 0
	return res.entries, res.ok
}

func isNillable(t types.Type) bool {
	switch t.Underlying().(type) {
	case *types.Pointer, *types.Interface, *types.Map, *types.Slice, *types.Signature, *types.Chan:
		return true
	}
	return false
}

// decideSymCompare, when set by a rule for the duration of its Decide calls, orders two symbolic
// operands (also inside helpers and dispatch-table entries decided in place).
var decideSymCompare func(a, b AV, op token.Token) (bool, bool)

// decideSymCall, when set by a rule, answers calls of external functions whose arguments are symbolic
// operands (the same question the rule's oracle answers when the call is written in the function itself).
var decideSymCall func(callee *types.Func, args []AV) (AV, bool)

// decideFieldHook, when set by a rule, answers "field f of the object the top-level function knows as
// origin" for loads that happen inside helper runs (where the object is a parameter).
var decideFieldHook func(origin ssa.Value, f *types.Var) (AV, bool)

// originOf: the top-level function's value that v (a parameter of a helper run) stands for.
func (r *decideRun) originOf(v ssa.Value) ssa.Value {
	if r.parent == nil {
		return nil
	}
	cv, ok := r.argVals[v]
	if !ok {
		return nil
	}
	if r.parent.parent == nil {
		return cv
	}
	if o := r.parent.originOf(cv); o != nil {
		return o
	}
	return nil
}

// staticLen: the length of a slice/array value when it is fixed by construction (a slice of a local array,
// an array, a composite literal handed through phis of identical length).
func staticLen(v ssa.Value, depth int) (int64, bool) {
	if depth > 4 {
		return 0, false
	}
	switch x := v.(type) {
	case *ssa.Slice:
		if x.Low != nil || x.High != nil || x.Max != nil {
			return 0, false
		}
		if arr, ok := derefType(x.X.Type()).Underlying().(*types.Array); ok {
			return arr.Len(), true
		}
		return staticLen(x.X, depth+1)
	case *ssa.Const:
		if x.IsNil() {
			return 0, true
		}
	case *ssa.Phi:
		var n int64 = -1
		for _, e := range x.Edges {
			m, ok := staticLen(e, depth+1)
			if !ok || (n >= 0 && m != n) {
				return 0, false
			}
			n = m
		}
		return n, n >= 0
	case *ssa.ChangeType:
		return staticLen(x.X, depth+1)
	}
	if arr, ok := v.Type().Underlying().(*types.Array); ok {
		return arr.Len(), true
	}
	return 0, false
}

// DecideObjects runs fn like Decide and additionally gives access to the objects built on the decided path:
// typeOf(av) is the allocated type behind an "alloc:" value, fieldsOf(av) its fields as last stored (".f0", ...).
func DecideObjects(fn *ssa.Function, oracle Oracle) (res []AV, typeOf func(AV) types.Type, fieldsOf func(AV) map[string]AV, err string) {
	r := &decideRun{fn: fn, oracle: oracle, memo: map[ssa.Value]AV{}}
	res, err = r.run()
	typeOf = func(a AV) types.Type {
		if al := r.allocs[a.Sym]; al != nil {
			return derefType(al.Type())
		}
		return nil
	}
	fieldsOf = func(a AV) map[string]AV {
		out := map[string]AV{}
		if !strings.HasPrefix(a.Sym, "alloc:") {
			return out
		}
		key := "a" + strings.TrimPrefix(a.Sym, "alloc:")
		for k, v := range r.mem {
			if strings.HasPrefix(k, key+".f") {
				out[strings.TrimPrefix(k, key)] = v
			}
		}
		return out
	}
	return
}

// DecideIteration runs ONE iteration of the loop with the given header (the oracle answers the header's
// phis, e.g. the index as a symbol) and reports the calls selected by want, the value every header phi takes
// on the back edge, and whether the loop was left instead.
func DecideIteration(fn *ssa.Function, l *Loop, oracle Oracle, want func(ssa.CallInstruction) bool) (evs []CallEvent, next map[*ssa.Phi]AV, exited bool, err string) {
	r := &decideRun{fn: fn, oracle: oracle, memo: map[ssa.Value]AV{}, eventsOnly: true, iterHeader: l.Header, iterLoop: l.Blocks}
	r.onCall = func(ci ssa.CallInstruction) {
		if !want(ci) {
			return
		}
		ev := CallEvent{Call: ci}
		saved := r.err
		for _, a := range ci.Common().Args {
			// append(buf, x, y): the elements, not the temporary array they travel in
			if sl, isSl := a.(*ssa.Slice); isSl {
				if arr, isArr := sl.X.(*ssa.Alloc); isArr {
					if elems := arrayLiteralElems(arr); elems != nil {
						for _, e := range elems {
							ev.Args = append(ev.Args, r.eval(e))
						}
						continue
					}
				}
			}
			ev.Args = append(ev.Args, r.eval(a))
		}
		r.err = saved
		evs = append(evs, ev)
	}
	_, err = r.run()
	return evs, r.iterNext, r.iterExited, err
}

// arrayLiteralElems: the values stored, by constant index, into a local array that is only used as the
// carrier of a variadic argument list.
func arrayLiteralElems(arr *ssa.Alloc) []ssa.Value {
	at, ok := derefType(arr.Type()).Underlying().(*types.Array)
	if !ok || at.Len() > 16 {
		return nil
	}
	out := make([]ssa.Value, at.Len())
	for _, r := range *arr.Referrers() {
		ia, isIA := r.(*ssa.IndexAddr)
		if !isIA {
			continue
		}
		k, isK := ia.Index.(*ssa.Const)
		if !isK || k.Value == nil {
			return nil
		}
		i, _ := constant.Int64Val(k.Value)
		for _, ir := range *ia.Referrers() {
			if st, isSt := ir.(*ssa.Store); isSt && st.Addr == ssa.Value(ia) && i >= 0 && i < int64(len(out)) {
				out[i] = st.Val
			}
		}
	}
	for _, v := range out {
		if v == nil {
			return nil
		}
	}
	return out
}

// inModule: fn belongs to the repository (a synthetic thunk or bound-method wrapper has no package of its own;
// the method it stands for has).
func inModule(fn *ssa.Function) bool {
	if fn.Pkg != nil {
		return strings.HasPrefix(fn.Pkg.Pkg.Path(), modPath)
	}
	if o := fn.Object(); o != nil && o.Pkg() != nil {
		return strings.HasPrefix(o.Pkg().Path(), modPath)
	}
	return false
}

var constArrayCache = map[*ssa.Global]*struct {
	entries []tableEntry
	ok      bool
}{}

// constArrayTable: the entries of a package-level array whose elements are only ever stored in the package
// initialiser, at constant indexes (`var t = [...]T{K1: v1, K2: v2}`).
func constArrayTable(g *ssa.Global) ([]tableEntry, bool) {
	if c := constArrayCache[g]; c != nil {
		return c.entries, c.ok
	}
	res := &struct {
		entries []tableEntry
		ok      bool
	}{}
	constArrayCache[g] = res
	if _, isArr := derefType(g.Type()).Underlying().(*types.Array); !isArr || g.Pkg == nil {
		return nil, false
	}
	initFn := g.Pkg.Func("init")
	if initFn == nil {
		return nil, false
	}
	clean := true
	var visit func(f *ssa.Function)
	visit = func(f *ssa.Function) {
		for _, b := range f.Blocks {
			for _, in := range b.Instrs {
				switch x := in.(type) {
				case *ssa.Store:
					if x.Addr == ssa.Value(g) && f != initFn {
						clean = false
					}
					ia, isIA := x.Addr.(*ssa.IndexAddr)
					if !isIA || ia.X != ssa.Value(g) {
						continue
					}
					k, isK := ia.Index.(*ssa.Const)
					if f != initFn || !isK || k.Value == nil {
						clean = false
						continue
					}
					res.entries = append(res.entries, tableEntry{k.Value, x.Val})
				case *ssa.Slice:
					if x.X == ssa.Value(g) {
						clean = false // a slice of it can be written through
					}
				}
			}
		}
		for _, a := range f.AnonFuncs {
			visit(a)
		}
	}
	for _, m := range g.Pkg.Members {
		if fn, isFn := m.(*ssa.Function); isFn {
			visit(fn)
		}
		if tp, isT := m.(*ssa.Type); isT {
			_ = tp
		}
	}
	if !clean {
		res.entries = nil
		return nil, false
	}
	res.ok = true
	return res.entries, true
}

// tableTargets: the functions a value read from a constant package-level dispatch table (map or array) can be.
func tableTargets(v ssa.Value) ([]*ssa.Function, bool) {
	if ex, isEx := v.(*ssa.Extract); isEx {
		v = ex.Tuple
	}
	var entries []tableEntry
	ok := false
	switch x := v.(type) {
	case *ssa.Lookup:
		if ld, isLd := x.X.(*ssa.UnOp); isLd && ld.Op == token.MUL {
			if g, isG := ld.X.(*ssa.Global); isG {
				entries, ok = constTable(g)
			}
		}
	case *ssa.UnOp:
		if ia, isIA := x.X.(*ssa.IndexAddr); isIA && x.Op == token.MUL {
			if g, isG := ia.X.(*ssa.Global); isG {
				entries, ok = constArrayTable(g)
			}
		}
	}
	if !ok {
		return nil, false
	}
	var out []*ssa.Function
	for _, e := range entries {
		ev := e.val
		if ct, isCT := ev.(*ssa.ChangeType); isCT {
			ev = ct.X
		}
		switch f := ev.(type) {
		case *ssa.Function:
			out = append(out, f)
		case *ssa.MakeClosure:
			if fn, isFn := f.Fn.(*ssa.Function); isFn {
				out = append(out, fn)
			} else {
				return nil, false
			}
		case *ssa.Const:
			if !f.IsNil() {
				return nil, false
			}
		default:
			return nil, false
		}
	}
	return out, true
}
