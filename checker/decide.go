package main

import (
	"fmt"
	"go/constant"
	"go/token"
	"go/types"

	"golang.org/x/tools/go/ssa"
)

// DECIDE: a path-sensitive abstract interpreter for small loop-free functions whose tracked
// values are only compared. The rule supplies an oracle for the leaf values (a pointer is nil or
// not, an opaque comparison has one of its outcomes, a flag is true/false); the engine follows the
// single feasible path and returns the abstract results. Anything it cannot evaluate makes the
// run "undecided" — never guessed.

type AV struct {
	Kind string // "const" | "nil" | "nonnil" | "sym" | "tuple" | "unknown"
	C    constant.Value
	Sym  string
	Neg  bool // for sym: arithmetic negation
	Tup  []AV
}

func avConst(c constant.Value) AV { return AV{Kind: "const", C: c} }
func avBool(b bool) AV            { return AV{Kind: "const", C: constant.MakeBool(b)} }
func avInt(i int64) AV            { return AV{Kind: "const", C: constant.MakeInt64(i)} }

func (a AV) String() string {
	switch a.Kind {
	case "const":
		return a.C.ExactString()
	case "sym":
		if a.Neg {
			return "-" + a.Sym
		}
		return a.Sym
	}
	return a.Kind
}

type Oracle func(v ssa.Value) (AV, bool)

type decideRun struct {
	depth  int
	fn     *ssa.Function
	oracle Oracle
	pred   *ssa.BasicBlock
	cur    *ssa.BasicBlock
	memo   map[ssa.Value]AV
	steps  int
	err    string
	// calls: invoked for call instructions executed on the path (for effect tracing)
	onCall func(call ssa.CallInstruction)
	trace  []ssa.Instruction
}

func (r *decideRun) fail(format string, args ...any) AV {
	if r.err == "" {
		r.err = fmt.Sprintf(format, args...)
	}
	return AV{Kind: "unknown"}
}

func (r *decideRun) eval(v ssa.Value) AV {
	if a, ok := r.memo[v]; ok {
		return a
	}
	a := r.eval1(v)
	if a.Kind != "unknown" {
		r.memo[v] = a
	}
	return a
}

func (r *decideRun) eval1(v ssa.Value) AV {
	if a, ok := r.oracle(v); ok {
		return a
	}
	switch x := v.(type) {
	case *ssa.Const:
		if x.IsNil() {
			return AV{Kind: "nil"}
		}
		if x.Value == nil {
			// zero value of a non-nillable type
			if b, ok := x.Type().Underlying().(*types.Basic); ok {
				switch {
				case b.Info()&types.IsBoolean != 0:
					return avBool(false)
				case b.Info()&types.IsInteger != 0:
					return avInt(0)
				}
			}
			return AV{Kind: "sym", Sym: "zero:" + x.Type().String()}
		}
		return avConst(x.Value)
	case *ssa.Phi:
		if x.Block() != r.cur && r.memo[x].Kind == "" {
			return r.fail("phi %s read outside its block", x.Name())
		}
		for i, p := range x.Block().Preds {
			if p == r.pred {
				return r.eval(x.Edges[i])
			}
		}
		return r.fail("phi %s: predecessor not found", x.Name())
	case *ssa.UnOp:
		switch x.Op {
		case token.NOT:
			a := r.eval(x.X)
			if a.Kind == "const" && a.C.Kind() == constant.Bool {
				return avBool(!constant.BoolVal(a.C))
			}
			return r.fail("! of %s", a)
		case token.SUB:
			a := r.eval(x.X)
			if a.Kind == "const" {
				return avConst(constant.UnaryOp(token.SUB, a.C, 0))
			}
			if a.Kind == "sym" {
				a.Neg = !a.Neg
				return a
			}
			return r.fail("- of %s", a)
		}
		return r.fail("load/unop %s not covered by the oracle (%s)", x.Name(), x.String())
	case *ssa.BinOp:
		a, b := r.eval(x.X), r.eval(x.Y)
		if a.Kind == "unknown" || b.Kind == "unknown" {
			return AV{Kind: "unknown"}
		}
		// nil comparisons
		if x.Op == token.EQL || x.Op == token.NEQ {
			eq, ok := avEqual(a, b)
			if ok {
				return avBool(eq == (x.Op == token.EQL))
			}
			return r.fail("cannot compare %s and %s", a, b)
		}
		if a.Kind == "const" && b.Kind == "const" {
			switch x.Op {
			case token.LSS, token.GTR, token.LEQ, token.GEQ:
				return avBool(constant.Compare(a.C, x.Op, b.C))
			case token.ADD, token.SUB, token.MUL:
				return avConst(constant.BinaryOp(a.C, x.Op, b.C))
			case token.LAND, token.LOR, token.AND, token.OR:
				return avConst(constant.BinaryOp(a.C, x.Op, b.C))
			}
		}
		if x.Op == token.SUB && a.Kind == "const" && constant.Sign(a.C) == 0 && b.Kind == "sym" {
			b.Neg = !b.Neg
			return b
		}
		return r.fail("binop %s on %s, %s", x.Op, a, b)
	case *ssa.Convert:
		return r.eval(x.X)
	case *ssa.ChangeType:
		return r.eval(x.X)
	case *ssa.Extract:
		t := r.eval(x.Tuple)
		if t.Kind == "tuple" && x.Index < len(t.Tup) {
			return t.Tup[x.Index]
		}
		return r.fail("extract from %s", t)
	case *ssa.Call:
		// a small helper of the repository: decide it in place with the actual arguments
		sc := x.Call.StaticCallee()
		if sc == nil || sc.Blocks == nil || r.depth >= 3 {
			return r.fail("call %s not covered by the oracle", x.Name())
		}
		args := make(map[ssa.Value]AV, len(sc.Params))
		for i, prm := range sc.Params {
			if i < len(x.Call.Args) {
				a := r.eval(x.Call.Args[i])
				if a.Kind == "unknown" {
					r.err = ""
					a = AV{Kind: "sym", Sym: "arg:" + x.Call.Args[i].Name()}
				}
				args[prm] = a
			}
		}
		sub := &decideRun{fn: sc, depth: r.depth + 1, memo: map[ssa.Value]AV{}, oracle: func(v ssa.Value) (AV, bool) {
			a, ok := args[v]
			return a, ok
		}}
		res, err := sub.run()
		if err != "" {
			return r.fail("helper %s: %s", sc.Name(), err)
		}
		if len(res) == 1 {
			return res[0]
		}
		return AV{Kind: "tuple", Tup: res}
	case *ssa.MakeInterface:
		a := r.eval(x.X)
		if a.Kind == "nil" {
			return AV{Kind: "nonnil"} // typed nil in an interface is a non-nil interface
		}
		return a
	}
	return r.fail("value %s (%T) not covered by the oracle", v.Name(), v)
}

func avEqual(a, b AV) (bool, bool) {
	nilness := func(x AV) (isNil, known bool) {
		switch x.Kind {
		case "nil":
			return true, true
		case "nonnil":
			return false, true
		}
		return false, false
	}
	an, ak := nilness(a)
	bn, bk := nilness(b)
	if ak && bk {
		if an && bn {
			return true, true
		}
		if an != bn {
			return false, true
		}
		return false, false // two non-nil pointers: identity unknown
	}
	if a.Kind == "const" && b.Kind == "const" {
		return constant.Compare(a.C, token.EQL, b.C), true
	}
	if a.Kind == "sym" && b.Kind == "sym" && a.Sym == b.Sym && a.Neg == b.Neg {
		return true, true
	}
	return false, false
}

// Decide runs fn under the oracle and returns the abstract results of the return reached.
func Decide(fn *ssa.Function, oracle Oracle, onCall func(ssa.CallInstruction)) ([]AV, string) {
	r := &decideRun{fn: fn, oracle: oracle, memo: map[ssa.Value]AV{}, onCall: onCall}
	return r.run()
}

func (r *decideRun) run() ([]AV, string) {
	fn := r.fn
	if len(fn.Blocks) == 0 {
		return nil, "no body"
	}
	r.cur = fn.Blocks[0]
	visited := map[*ssa.BasicBlock]bool{}
	for r.steps = 0; r.steps < 500; r.steps++ {
		if visited[r.cur] {
			// a new iteration of a loop: everything computed inside it is computed again
			// (phis of the header are re-evaluated below from the values of the back edge, which are
			// read before their memo entries go)
			var phiVals []AV
			var phis []*ssa.Phi
			for _, in := range r.cur.Instrs {
				if phi, ok := in.(*ssa.Phi); ok {
					for i, p := range phi.Block().Preds {
						if p == r.pred {
							phis = append(phis, phi)
							phiVals = append(phiVals, r.eval(phi.Edges[i]))
						}
					}
				}
			}
			for _, b := range fn.Blocks {
				if r.cur.Dominates(b) {
					for _, in := range b.Instrs {
						if v, ok := in.(ssa.Value); ok {
							delete(r.memo, v)
						}
					}
				}
			}
			for i, phi := range phis {
				r.memo[phi] = phiVals[i]
			}
		}
		visited[r.cur] = true
		// evaluate phis eagerly so later reads are memoised
		for _, in := range r.cur.Instrs {
			if phi, ok := in.(*ssa.Phi); ok {
				r.eval(phi)
			}
		}
		r.trace = append(r.trace, r.cur.Instrs...)
		if r.onCall != nil {
			for _, in := range r.cur.Instrs {
				if ci, ok := in.(ssa.CallInstruction); ok {
					r.onCall(ci)
				}
			}
		}
		last := r.cur.Instrs[len(r.cur.Instrs)-1]
		switch x := last.(type) {
		case *ssa.Return:
			out := make([]AV, len(x.Results))
			for i, v := range x.Results {
				out[i] = r.eval(v)
			}
			if r.err != "" {
				return nil, r.err
			}
			return out, ""
		case *ssa.If:
			c := r.eval(x.Cond)
			if c.Kind != "const" || c.C.Kind() != constant.Bool {
				if r.err == "" {
					r.err = fmt.Sprintf("branch condition %s not decidable", x.Cond.Name())
				}
				return nil, r.err
			}
			r.pred = r.cur
			if constant.BoolVal(c.C) {
				r.cur = r.cur.Succs[0]
			} else {
				r.cur = r.cur.Succs[1]
			}
		case *ssa.Jump:
			r.pred = r.cur
			r.cur = r.cur.Succs[0]
		case *ssa.Panic:
			return nil, "reaches panic"
		default:
			return nil, fmt.Sprintf("unsupported terminator %T", last)
		}
	}
	return nil, "step bound exceeded (loop?)"
}

// DecideTrace is Decide plus the executed instruction sequence and an evaluator for values on it.
func DecideTrace(fn *ssa.Function, oracle Oracle) (res []AV, trace []ssa.Instruction, eval func(ssa.Value) AV, err string) {
	r := &decideRun{fn: fn, oracle: oracle, memo: map[ssa.Value]AV{}}
	res, err = r.run()
	return res, r.trace, func(v ssa.Value) AV { saved := r.err; a := r.eval(v); r.err = saved; return a }, err
}

// CallEvent is one executed call on the decided path, with its arguments evaluated at that moment.
type CallEvent struct {
	Call ssa.CallInstruction
	Args []AV
}

// DecideCalls runs fn like Decide and reports, in execution order, the calls selected by want.
func DecideCalls(fn *ssa.Function, oracle Oracle, want func(ssa.CallInstruction) bool) ([]CallEvent, string) {
	var evs []CallEvent
	r := &decideRun{fn: fn, oracle: oracle, memo: map[ssa.Value]AV{}}
	r.onCall = func(ci ssa.CallInstruction) {
		if !want(ci) {
			return
		}
		ev := CallEvent{Call: ci}
		saved := r.err
		for _, a := range ci.Common().Args {
			ev.Args = append(ev.Args, r.eval(a))
		}
		r.err = saved
		evs = append(evs, ev)
	}
	_, err := r.run()
	return evs, err
}
