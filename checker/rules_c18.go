package main

import (
	"fmt"
	"go/types"
	"sort"
	"strings"

	"golang.org/x/tools/go/ssa"
)

func init() {
	register(&Property{
		ID:          "C18",
		Title:       "Concurrent use: snapshot-isolated reads and no data races",
		Technique:   "static analysis: write-effect rule over every package-level variable (stores, stores through loaded references, address handed to a callee), escape/pairing rule for pooled parser instances, may-write-field reachability from the read entry points over the call graph, lockset rule for DbImpl.View; pool rule for every sync.Pool user incl. defer-spilled results; restore under the write lock; View resolved through function-value flow",
		LevelText:   "Necessary conditions for the three things the statement names: (1) no package-level variable of ast/boltz/objectz/zitiql is written after init except through sync/atomic types; (2) pooled lexer/parser instances are returned to their pool, never escape, and all per-call parse state is freshly allocated; (3) no function reachable from the query/lookup entry points writes a field of the shared store, index, symbol or link-collection objects; (4) View runs the callback inside a bolt read transaction under the reload read-lock. Snapshot isolation itself is bbolt's MVCC and general race freedom is a dynamic property: not decided. Applies the pool rule to every function that takes an object out of a sync.Pool (nothing loaded from it may be returned, also through a result slot read back after rundefers); the restore sequence runs under the write lock. Added later: no unsafe string/slice conversion of memory that belongs to bolt (NOUNSAFE); a typed query object is not shared through a package-level cache and mutated (SHAREDINSTANCE). Added in rounds 8-9: a snapshot taken inside a read transaction is copied through that transaction (SNAPSHOT cross-listed); package-level maps handed out are shared instances too (SHAREDINSTANCE). Added in round 10: the map a copy-on-write map hands out is only read (COWMAP). Added in round 11: an exported lookup does not rearrange a slice parameter in place (ARGMUTATE). Added in round 13: the result of appending to a slice held in a field of a shared object is stored back into that field only (ALIASAPPEND).",
		LevelNote:   "Trusted: go/types, x/tools SSA, name-and-shape CHA (over-approximates callees: sound for may-write), sync/atomic/sync.Pool semantics, bbolt MVCC.",
		DesignRef:   "DESIGN.md C18",
		Explanation: "GLOBALS sites: every package-level variable of the four packages (generated parser tables excluded: guarded by sync.Once in generated code). READPATH sites: every function reachable from the listed read entry points.",
		Trusted:     []string{"go/types", "golang.org/x/tools/go/ssa v0.29.0", "sync, sync/atomic", "bbolt MVCC read transactions"},
		Rules:       rulesC18,
		Controls: []controlExpect{
			{"C18.GLOBALS", "zzControlBadGlobalC18", true},
			{"C18.GLOBALS", "zzControlGoodGlobalC18", false},
			{"C18.COWMAP", "zzControlBad_C18_COWMAP", true},
			{"C18.COWMAP", "zzControlGood_C18_COWMAP", false},
		},
	})
}

func rulesC18(c *Ctx) {
	ruleNoAliasingAppend(c, "C18.ALIASAPPEND", "boltz", "ast", "objectz", "zitiql")
	ruleC18Globals(c)
	ruleSharedInstance(c, "C18.SHAREDINSTANCE")
	ruleC18Pool(c)
	ruleRestoreSwap(c, "C18.RESTORELOCK")
	ruleC18ReadPath(c)
	ruleCowMapReadOnly(c, "C18.COWMAP", "boltz", "ast", "objectz")
	ruleNoArgMutation(c, "C18.ARGMUTATE", "boltz", "ast", "objectz")
	// a snapshot taken inside a read transaction is that transaction's state (copied through it, not through the
	// database handle)
	ruleC17Snapshot(c)
	ruleC18View(c)
	ruleC18ClosureState(c)
	ruleFreshDefaultContext(c, "C18.FRESHCTX")
	ruleNoUnsafe(c, "C18.NOUNSAFE")
}

// ruleC18ClosureState: a closure that outlives the call that built it (returned, or stored in a field of
// an object: symbol evaluators, cursor providers, comparators) is shared by every goroutine that uses the
// object.  It must not write the variables it captured from its builder (a buffer hoisted out of the
// closure "to save an allocation" is written by all concurrent readers at once).
func ruleC18ClosureState(c *Ctx) {
	p := c.P
	n, bad := 0, 0
	for _, fn := range c.prodFuncs("ast", "boltz", "objectz") {
		for _, b := range fn.Blocks {
			for _, in := range b.Instrs {
				mc, ok := in.(*ssa.MakeClosure)
				if !ok || len(mc.Bindings) == 0 {
					continue
				}
				cl, _ := mc.Fn.(*ssa.Function)
				if cl == nil || cl.Blocks == nil {
					continue
				}
				// does the closure value outlive this call?
				longLived := ""
				var follow func(v ssa.Value, depth int)
				follow = func(v ssa.Value, depth int) {
					if depth > 3 || longLived != "" {
						return
					}
					for _, r := range *v.Referrers() {
						switch x := r.(type) {
						case *ssa.Return:
							longLived = "returned"
						case *ssa.Store:
							if x.Val == v {
								if fa, isFA := x.Addr.(*ssa.FieldAddr); isFA {
									// a field of an object built by this very call lives as long as that object does:
									// follow the object instead (a visitor made for one walk and dropped is not shared)
									base := fa.X
									for {
										inner, isInner := base.(*ssa.FieldAddr)
										if !isInner {
											break
										}
										base = inner.X
									}
									if al, isAl := base.(*ssa.Alloc); isAl && al.Referrers() != nil {
										follow(al, depth+1)
									} else {
										longLived = "stored in a field"
									}
								} else if _, isGlobal := x.Addr.(*ssa.Global); isGlobal {
									longLived = "stored in a package variable"
								}
							}
						case *ssa.MakeInterface:
							follow(x, depth+1)
						case *ssa.ChangeType:
							follow(x, depth+1)
						case *ssa.Phi:
							follow(x, depth+1)
						}
					}
				}
				follow(mc, 0)
				if longLived == "" {
					continue
				}
				n++
				// captured variables that are locals of the builder (one instance per built closure)
				captured := map[*ssa.FreeVar]bool{}
				for i, bnd := range mc.Bindings {
					if _, isAlloc := bnd.(*ssa.Alloc); isAlloc && i < len(cl.FreeVars) {
						captured[cl.FreeVars[i]] = true
					}
				}
				var derives func(v ssa.Value, depth int) *ssa.FreeVar
				derives = func(v ssa.Value, depth int) *ssa.FreeVar {
					if depth > 5 || v == nil {
						return nil
					}
					switch x := v.(type) {
					case *ssa.FreeVar:
						if captured[x] {
							return x
						}
					case *ssa.UnOp:
						return derives(x.X, depth+1)
					case *ssa.IndexAddr:
						return derives(x.X, depth+1)
					case *ssa.FieldAddr:
						return derives(x.X, depth+1)
					case *ssa.Slice:
						return derives(x.X, depth+1)
					}
					return nil
				}
				for _, cb := range cl.Blocks {
					for _, ci := range cb.Instrs {
						st, isSt := ci.(*ssa.Store)
						if !isSt {
							continue
						}
						if fv := derives(st.Addr, 0); fv != nil {
							bad++
							c.Bad("C18.CLOSURESTATE", FnName(cl)+": writes captured "+fv.Name(), p.Pos(st.Pos()), "this closure is "+longLived+" by "+FnName(fn)+" and so shared by all users of the object it ends up in, but it writes the variable "+fv.Name()+" captured from its builder: concurrent read transactions overwrite each other's value (and race)")
						}
					}
				}
			}
		}
	}
	if bad == 0 {
		c.OK("C18.CLOSURESTATE", "long-lived closures", "-", fmt.Sprintf("%d closure(s) are returned or stored in a field; none writes a variable captured from its builder", n))
	}
	c.CallSites(n)
}

func isInitFn(fn *ssa.Function) bool {
	for f := fn; f != nil; f = f.Parent() {
		if f.Name() == "init" || strings.HasPrefix(f.Name(), "init#") {
			return true
		}
	}
	return false
}

func isSyncType(t types.Type) bool {
	n := namedOf(t)
	if n == nil || n.Obj().Pkg() == nil {
		return false
	}
	switch n.Obj().Pkg().Path() {
	case "sync", "sync/atomic":
		return true
	}
	return false
}

func ruleC18Globals(c *Ctx) {
	p := c.P
	type gw struct {
		fn  *ssa.Function
		pos string
		how string
	}
	writes := map[*ssa.Global][]gw{}
	var globals []*ssa.Global
	for _, short := range srcPkgs {
		sp := p.SSAPkgs[short]
		for _, m := range sp.Members {
			if g, ok := m.(*ssa.Global); ok {
				if strings.HasPrefix(g.Name(), "init$") || p.isGenerated(g.Pos()) || !g.Pos().IsValid() {
					continue
				}
				globals = append(globals, g)
			}
		}
	}
	sort.Slice(globals, func(i, j int) bool { return globals[i].String() < globals[j].String() })
	// rooted: is address v rooted at a global (through field/index address chains)?
	var rootGlobal func(v ssa.Value, depth int) *ssa.Global
	rootGlobal = func(v ssa.Value, depth int) *ssa.Global {
		if depth > 8 {
			return nil
		}
		switch x := v.(type) {
		case *ssa.Global:
			return x
		case *ssa.FieldAddr:
			return rootGlobal(x.X, depth+1)
		case *ssa.IndexAddr:
			return rootGlobal(x.X, depth+1)
		case *ssa.UnOp: // value loaded from the global: a reference into shared memory
			return rootGlobal(x.X, depth+1)
		case *ssa.MakeInterface:
			return rootGlobal(x.X, depth+1)
		case *ssa.ChangeType:
			return rootGlobal(x.X, depth+1)
		}
		return nil
	}
	for _, fn := range c.P.SrcFuncs(srcPkgs...) {
		if p.isGenerated(fn.Pos()) || isInitFn(fn) {
			continue
		}
		for _, b := range fn.Blocks {
			for _, in := range b.Instrs {
				switch x := in.(type) {
				case *ssa.Store:
					if g := rootGlobal(x.Addr, 0); g != nil {
						writes[g] = append(writes[g], gw{fn, p.Pos(x.Pos()), "store"})
					}
				case *ssa.MapUpdate:
					if g := rootGlobal(x.Map, 0); g != nil {
						writes[g] = append(writes[g], gw{fn, p.Pos(x.Pos()), "map update"})
					}
				case ssa.CallInstruction:
					cc := x.Common()
					cal, _ := calleeOf(cc)
					for i, a := range cc.Args {
						// the ADDRESS of the global (not a loaded value) handed to a callee
						if _, isLoad := a.(*ssa.UnOp); isLoad {
							continue
						}
						g := rootGlobal(a, 0)
						if g == nil {
							continue
						}
						if i == 0 && !cc.IsInvoke() && cal != nil && cal.Type().(*types.Signature).Recv() != nil && isSyncType(recvType(cal)) {
							continue // method of a sync/atomic type on the variable itself
						}
						name := "?"
						if cal != nil {
							name = shortObj(cal)
						}
						writes[g] = append(writes[g], gw{fn, p.Pos(x.Pos()), "address passed to " + name + " (which may store through it)"})
					}
				}
			}
		}
	}
	for _, g := range globals {
		name := strings.ReplaceAll(g.String(), modPath+"/", "")
		ws := writes[g]
		if len(ws) == 0 {
			c.OK("C18.GLOBALS", name, p.Pos(g.Pos()), "never written outside package initialisation (sync/atomic methods excepted)")
			continue
		}
		for _, w := range ws {
			c.Bad("C18.GLOBALS", name+" written in "+FnName(w.fn), w.pos, "package-level variable modified after init without synchronisation: "+w.how+" — concurrent callers race")
		}
	}
	c.Floor("C18.GLOBALS", 10)
}

func poolGets(fn *ssa.Function) []*ssa.Call {
	var gets []*ssa.Call
	for _, call := range callsIn(fn) {
		cal, _ := calleeOf(call.Common())
		if k, ok := call.(*ssa.Call); ok && cal != nil && cal.Pkg() != nil && cal.Pkg().Path() == "sync" && cal.Name() == "Get" && namedOf(cal.Type().(*types.Signature).Recv().Type()) != nil && namedOf(cal.Type().(*types.Signature).Recv().Type()).Obj().Name() == "Pool" {
			gets = append(gets, k)
		}
	}
	return gets
}

func ruleC18Pool(c *Ctx) {
	p := c.P
	parseFn := p.SSAFunc(p.Func("zitiql", "parse"))
	if n := len(poolGets(parseFn)); n < 2 {
		c.Bad("C18.POOL", FnName(parseFn)+": pooled instances", p.Pos(parseFn.Pos()), fmt.Sprintf("expected lexer and parser to come from sync.Pool, found %d Get calls", n))
	}
	// every function of the repository that takes an object out of a sync.Pool
	for _, fn := range p.SrcFuncs("zitiql", "ast", "boltz", "objectz") {
		if p.isGenerated(fn.Pos()) {
			continue
		}
		if gets := poolGets(fn); len(gets) > 0 {
			ruleC18PoolFn(c, fn, gets)
		}
	}
	ruleC18PoolTail(c, parseFn, FnName(parseFn))
}

func ruleC18PoolFn(c *Ctx, fn *ssa.Function, gets []*ssa.Call) {
	p := c.P
	name := FnName(fn)
	c.Analysed(name)
	for _, g := range gets {
		poolVal := g.Call.Args[0]
		// pooled object value: the TypeAssert of the Get result
		var obj ssa.Value
		for _, r := range *g.Referrers() {
			if ta, ok := r.(*ssa.TypeAssert); ok {
				obj = ta
			}
		}
		what := name + ": pool " + describeValue(poolVal)
		if u, ok := poolVal.(*ssa.UnOp); ok {
			if gl, ok := u.X.(*ssa.Global); ok {
				what = name + ": pool " + gl.Name()
			}
		}
		if obj == nil {
			c.Undecided("C18.POOL", what, p.Pos(g.Pos()), "cannot identify the pooled object")
			continue
		}
		// deferred Put of the same object into the same pool, dominating every return
		okPut := false
		for _, call := range callsIn(fn) {
			d, ok := call.(*ssa.Defer)
			if !ok {
				continue
			}
			cal, _ := calleeOf(d.Common())
			if cal == nil || cal.Name() != "Put" || cal.Pkg() == nil || cal.Pkg().Path() != "sync" {
				continue
			}
			arg := d.Call.Args[1]
			if mi, ok := arg.(*ssa.MakeInterface); ok {
				arg = mi.X
			}
			if arg == obj && sameAddr(d.Call.Args[0], poolVal) {
				all := true
				for _, r := range returnsOf(fn) {
					if r.Block() == fn.Recover {
						continue
					}
					if !d.Block().Dominates(r.Block()) {
						all = false
					}
				}
				okPut = all
			}
		}
		c.Check(okPut, "C18.POOL", what+": returned to pool", p.Pos(g.Pos()), "a deferred Put of the same object into the same pool dominates every return", "the pooled instance is not put back by a dominating deferred Put (or into a different pool)")
		// no escape: never returned, never stored outside locals
		esc := ""
		var visit func(v ssa.Value, depth int)
		seen := map[ssa.Value]bool{}
		visit = func(v ssa.Value, depth int) {
			if seen[v] || depth > 6 {
				return
			}
			seen[v] = true
			for _, r := range *v.Referrers() {
				switch x := r.(type) {
				case *ssa.Return:
					esc = "returned at " + p.Pos(x.Pos())
				case *ssa.Store:
					if x.Val == v {
						if al, local := x.Addr.(*ssa.Alloc); !local {
							esc = "stored at " + p.Pos(x.Pos())
						} else {
							visit(al, depth+1) // spilled local (e.g. a result slot read back after rundefers)
						}
					}
				case *ssa.MakeClosure:
					esc = "captured by a closure at " + p.Pos(x.Pos())
				case *ssa.FieldAddr, *ssa.ChangeType, *ssa.MakeInterface:
					visit(x.(ssa.Value), depth+1)
				case *ssa.UnOp:
					visit(x, depth+1)
				}
			}
		}
		visit(obj, 0)
		c.Check(esc == "", "C18.POOL", what+": does not escape", p.Pos(g.Pos()), "neither the pooled instance nor anything loaded from it is returned, stored in shared memory or captured", "the pooled instance (or memory loaded from it) escapes: "+esc)
	}
}

func ruleC18PoolTail(c *Ctx, fn *ssa.Function, name string) {
	p := c.P
	// per-call state is fresh: SetInputStream arguments come from constructor calls in this function
	n := 0
	for _, call := range callsIn(fn) {
		cal, _ := calleeOf(call.Common())
		if cal == nil || cal.Name() != "SetInputStream" {
			continue
		}
		n++
		arg := call.Common().Args[len(call.Common().Args)-1]
		if mi, ok := arg.(*ssa.MakeInterface); ok {
			arg = mi.X
		}
		fresh := false
		if k, ok := arg.(*ssa.Call); ok {
			if f, _ := calleeOf(k.Common()); f != nil && strings.HasPrefix(f.Name(), "New") {
				fresh = true
			}
		}
		c.Check(fresh, "C18.POOL", name+": "+shortObj(cal)+" gets fresh state", p.Pos(call.Pos()), "the input/token stream is allocated by a constructor call inside parse", "a pooled instance is fed state that was not freshly allocated in this call")
	}
	if n < 2 {
		c.Bad("C18.POOL", name+": stream reset", p.Pos(fn.Pos()), "lexer and parser must both be given a fresh stream before use")
	}
	c.Floor("C18.POOL", 6)
}

func ruleC18ReadPath(c *Ctx) {
	p := c.P
	cg := p.CallGraph()
	shared := map[*types.Named]bool{}
	for _, n := range []string{"BaseStore", "Indexer", "entitySymbol", "entityIdSymbol", "entityMapSymbol", "entitySetSymbolImpl", "uniqueIndex", "setIndex", "fkIndex", "fkConstraint", "fkDeleteConstraint", "fkDeleteCascadeConstraint", "linkCollectionImpl", "rcLinkCollectionImpl", "LinkedSetSymbol", "RefCountedLinkedSetSymbol", "symbolMapWrapper", "DbImpl", "systemEntityConstraint"} {
		shared[p.Named("boltz", n)] = true
	}
	shared[p.Named("objectz", "ObjectStore")] = true
	mutatorNames := map[string]bool{"Put": true, "Append": true, "Delete": true, "DeleteIf": true, "Clear": true, "Store": true, "Set": true, "Add": true, "Remove": true, "Swap": true, "CompareAndSwap": true}
	writesShared := func(in ssa.Instruction) bool {
		var addr ssa.Value
		switch x := in.(type) {
		case *ssa.Store:
			addr = x.Addr
		case *ssa.MapUpdate:
			addr = x.Map
		case ssa.CallInstruction:
			// a mutating method of a container held in a field of a shared object (e.g. the
			// copy-on-write symbol map): shared state changes even though no Store is visible here
			cc := x.Common()
			// append(shared.field, ...): when the shared slice has spare capacity the new element is written
			// into the SHARED backing array (the result header is private, the element slot is not)
			if bi, isBuiltin := cc.Value.(*ssa.Builtin); isBuiltin && bi.Name() == "append" && len(cc.Args) > 0 {
				if ld, isLoad := cc.Args[0].(*ssa.UnOp); isLoad {
					if fa, isFa := ld.X.(*ssa.FieldAddr); isFa {
						addr = fa
						break
					}
				}
				return false
			}
			cal, _ := calleeOf(cc)
			if cal == nil || cc.IsInvoke() || len(cc.Args) == 0 || cal.Type().(*types.Signature).Recv() == nil || !mutatorNames[cal.Name()] {
				return false
			}
			if cal.Pkg() != nil && strings.HasPrefix(cal.Pkg().Path(), modPath) {
				return false // repository methods are analysed through their own bodies
			}
			fa, ok := cc.Args[0].(*ssa.FieldAddr)
			if !ok {
				return false
			}
			addr = fa
		default:
			return false
		}
		for i := 0; i < 8 && addr != nil; i++ {
			switch a := addr.(type) {
			case *ssa.FieldAddr:
				if shared[namedOf(a.X.Type())] {
					// fresh object under construction in the same function is not shared yet
					if _, fresh := a.X.(*ssa.Alloc); fresh {
						return false
					}
					return true
				}
				addr = a.X
			case *ssa.IndexAddr:
				addr = a.X
			case *ssa.UnOp:
				addr = a.X
			default:
				addr = nil
			}
		}
		return false
	}
	sum := cg.Summarize(writesShared)
	type entry struct{ pkg, typ, m string }
	var entries []entry
	for _, m := range []string{"GetSymbol", "GetSymbolType", "IsSet", "GetSetSymbolTypes", "QueryIds", "QueryIdsC", "QueryWithCursorC", "IterateIds", "IterateValidIds", "FindById", "LoadById", "LoadEntity", "IsEntityPresent", "GetRelatedEntitiesIdList", "GetRelatedEntitiesCursor", "IsEntityRelated", "IsPublicSymbol", "GetPublicSymbols", "FindMatching", "FindMatchingAnyOf", "IteratorMatchingAllOf", "IteratorMatchingAnyOf", "GetEntityBucket", "GetEntitiesBucket"} {
		entries = append(entries, entry{"boltz", "BaseStore", m})
	}
	entries = append(entries, entry{"boltz", "uniqueIndex", "Read"}, entry{"boltz", "setIndex", "Read"}, entry{"boltz", "setIndex", "ReadKeys"},
		entry{"boltz", "setIndex", "OpenValueCursor"}, entry{"boltz", "setIndex", "OpenKeyCursor"},
		entry{"boltz", "linkCollectionImpl", "GetLinks"}, entry{"boltz", "linkCollectionImpl", "IterateLinks"}, entry{"boltz", "linkCollectionImpl", "IsLinked"},
		entry{"boltz", "rcLinkCollectionImpl", "GetLinkCount"}, entry{"boltz", "rcLinkCollectionImpl", "GetLinkCounts"}, entry{"boltz", "rcLinkCollectionImpl", "IterateLinks"},
		entry{"boltz", "DbImpl", "View"}, entry{"boltz", "DbImpl", "GetSnapshotId"},
		entry{"objectz", "ObjectStore", "QueryEntities"}, entry{"objectz", "ObjectStore", "QueryEntitiesC"}, entry{"objectz", "ObjectStore", "GetSymbol"})
	for _, e := range entries {
		fn := p.SSAFunc(p.Method(e.pkg, e.typ, e.m))
		name := FnName(fn)
		c.Analysed(name)
		if sum.May(fn) {
			c.BadPath("C18.READPATH", name, p.Pos(fn.Pos()), "a read entry point can reach a write to a field of a shared store/index/symbol object: concurrent readers race", sum.Chain(fn)+" -> "+describeDirect(p, sum, fn))
		} else {
			c.OK("C18.READPATH", name, p.Pos(fn.Pos()), "no function reachable from this read entry point stores into a shared store/index/symbol object")
		}
	}
	// also the parse entry
	for _, f := range []*types.Func{p.Func("ast", "Parse"), p.Func("zitiql", "Parse")} {
		fn := p.SSAFunc(f)
		c.Check(!sum.May(fn), "C18.READPATH", FnName(fn), p.Pos(fn.Pos()), "parsing does not write shared store objects", "parsing reaches a write to shared store objects: "+sum.Chain(fn))
	}
	c.Floor("C18.READPATH", 30)
}

func describeDirect(p *Prog, s *Summary, fn *ssa.Function) string {
	for n := 0; n < 16; n++ {
		if in, ok := s.direct[fn]; ok {
			return "write at " + p.Pos(in.Pos())
		}
		fn = s.via[fn]
		if fn == nil {
			break
		}
	}
	return ""
}

func ruleC18View(c *Ctx) {
	p := c.P
	fn := p.SSAFunc(p.Method("boltz", "DbImpl", "View"))
	name := FnName(fn)
	c.Analysed(name)
	// the bolt View entry that receives the caller's callback: in View itself or in a closure nested in
	// it (the lock side of it is decided by C17.LOCK's handle rule, which this property runs as well)
	ff := p.FuncFlow()
	var vsite *txSite
	for _, site := range txSites(c) {
		if !site.Kinds["View"] {
			continue
		}
		root := site.Outer
		for root.Parent() != nil {
			root = root.Parent()
		}
		if root != fn {
			continue
		}
		s := site
		vsite = &s
	}
	ok := false
	if vsite != nil {
		last := vsite.Call.Common().Args[len(vsite.Call.Common().Args)-1]
		// the callback is the function parameter of View (possibly captured by the nested closure)
		var isParam func(v ssa.Value, depth int) bool
		isParam = func(v ssa.Value, depth int) bool {
			if depth > 4 {
				return false
			}
			switch x := v.(type) {
			case *ssa.Parameter:
				return x == fn.Params[1]
			case *ssa.FreeVar:
				return isParam(ff.binding[x], depth+1)
			case *ssa.UnOp:
				if al, isAl := x.X.(*ssa.Alloc); isAl {
					for _, r := range *al.Referrers() {
						if st, isSt := r.(*ssa.Store); isSt && st.Addr == ssa.Value(al) && isParam(st.Val, depth+1) {
							return true
						}
					}
				}
				if fv, isFV := x.X.(*ssa.FreeVar); isFV {
					return isParam(ff.binding[fv], depth+1)
				}
			case *ssa.Alloc:
				for _, r := range *x.Referrers() {
					if st, isSt := r.(*ssa.Store); isSt && st.Addr == ssa.Value(x) && isParam(st.Val, depth+1) {
						return true
					}
				}
			}
			return false
		}
		ok = isParam(last, 0)
	}
	c.Check(ok, "C18.VIEW", name+": callback runs in a bolt read transaction", p.Pos(fn.Pos()), "the caller's function is handed to bbolt DB.View unchanged", "View does not run the callback through bbolt DB.View")
	if ok {
		held := false
		if vsite.Outer == fn {
			held = lockHeldAt(p, fn, vsite.Call, "RLock", "RUnlock")
		} else {
			// entered inside a closure: the lock must be held where that closure is invoked
			held = true
			n := 0
			for _, f2 := range ff.funcs {
				for _, call := range callsIn(f2) {
					cc := call.Common()
					if cc.IsInvoke() || cc.StaticCallee() != nil {
						continue
					}
					for _, t := range ff.Resolve(cc.Value, 0) {
						if t == vsite.Outer {
							n++
							if !lockHeldAt(p, call.Parent(), call, "RLock", "RUnlock") {
								held = false
							}
						}
					}
				}
			}
			held = held && n > 0
		}
		c.Check(held, "C18.VIEW", name+": under reload read-lock", p.Pos(vsite.Call.Pos()), "reloadLock.RLock() precedes and a deferred RUnlock covers the bolt call", "the bolt read transaction is not entered under reloadLock.RLock (a concurrent restore can swap the database underneath)")
	}
}

// lockHeldAt: a call to sync.RWMutex.<lock> on a field of the receiver precedes `at` on every path
// and the matching unlock is deferred.
func lockHeldAt(p *Prog, fn *ssa.Function, at ssa.Instruction, lock, unlock string) bool {
	isLock := func(in ssa.Instruction, name string, deferred bool) bool {
		call, ok := in.(ssa.CallInstruction)
		if !ok {
			return false
		}
		if _, isDefer := in.(*ssa.Defer); isDefer != deferred {
			return false
		}
		cal, _ := calleeOf(call.Common())
		if cal == nil || cal.Name() != name || !isSyncType(recvType(cal)) {
			return false
		}
		if fa, ok := call.Common().Args[0].(*ssa.FieldAddr); ok {
			return isReceiver(fn, fa.X)
		}
		return false
	}
	ri := reachWithout(fn, func(in ssa.Instruction) bool { return isLock(in, lock, false) })
	if ri.Reaches(at) {
		return false
	}
	ri2 := reachWithout(fn, func(in ssa.Instruction) bool { return isLock(in, unlock, true) })
	return !ri2.Reaches(at)
}

// ruleC18SharedInstance: a package-level variable that refers to a MUTABLE object (its type has a
// pointer-receiver method that stores into the receiver) must not be handed out (returned or stored
// into other objects) — every caller would then share and mutate one instance.
func ruleSharedInstance(c *Ctx, rule string) {
	p := c.P
	mutable := func(t types.Type) (bool, string) {
		n := namedOf(t)
		if n == nil {
			return false, ""
		}
		for i := 0; i < n.NumMethods(); i++ {
			fn := p.SSA.FuncValue(n.Method(i))
			if fn == nil || fn.Blocks == nil || len(fn.Params) == 0 {
				continue
			}
			if _, isPtr := fn.Params[0].Type().(*types.Pointer); !isPtr {
				continue
			}
			for _, b := range fn.Blocks {
				for _, in := range b.Instrs {
					if st, ok := in.(*ssa.Store); ok {
						if _, base := fieldOfAddr(st.Addr); base == ssa.Value(fn.Params[0]) {
							return true, n.Method(i).Name()
						}
					}
				}
			}
		}
		return false, ""
	}
	// dynamic type of each global from its initialiser
	for _, short := range srcPkgs {
		sp := p.SSAPkgs[short]
		initFn := sp.Func("init")
		dyn := map[*ssa.Global]types.Type{}
		for _, b := range initFn.Blocks {
			for _, in := range b.Instrs {
				if st, ok := in.(*ssa.Store); ok {
					if g, ok := st.Addr.(*ssa.Global); ok {
						v := st.Val
						if mi, ok := v.(*ssa.MakeInterface); ok {
							v = mi.X
						}
						if call, ok := v.(*ssa.Call); ok {
							// constructor: use its returned dynamic type when it is a single MakeInterface
							if sc := call.Call.StaticCallee(); sc != nil && sc.Blocks != nil {
								for _, r := range returnsOf(sc) {
									if mi, ok := r.Results[0].(*ssa.MakeInterface); ok {
										dyn[g] = mi.X.Type()
									}
								}
							}
						}
						if _, ok := dyn[g]; !ok {
							dyn[g] = v.Type()
						}
					}
				}
			}
		}
		for g, t := range dyn {
			if p.isGenerated(g.Pos()) || !g.Pos().IsValid() || isSyncType(t) {
				continue
			}
			isMut, via := false, ""
			switch t.Underlying().(type) {
			case *types.Pointer:
				isMut, via = mutable(t)
			case *types.Map:
				// a map is shared by reference: whoever is handed it can write into it
				isMut, via = true, "any assignment to an element"
			default:
				continue
			}
			name := strings.ReplaceAll(g.String(), modPath+"/", "")
			if !isMut {
				c.OK(rule, name, p.Pos(g.Pos()), "refers to an object without mutating methods")
				continue
			}
			// handed out?
			leak := ""
			for _, fn := range p.SrcFuncs(srcPkgs...) {
				if isInitFn(fn) || p.isGenerated(fn.Pos()) {
					continue
				}
				for _, b := range fn.Blocks {
					for _, in := range b.Instrs {
						u, ok := in.(*ssa.UnOp)
						if !ok || u.X != ssa.Value(g) {
							continue
						}
						var follow func(v ssa.Value, depth int)
						follow = func(v ssa.Value, depth int) {
							if depth > 4 || v.Referrers() == nil {
								return
							}
							for _, r := range *v.Referrers() {
								switch x := r.(type) {
								case *ssa.Return:
									leak = "returned by " + FnName(fn)
								case *ssa.Store:
									if x.Val == v {
										leak = "stored by " + FnName(fn)
									}
								case *ssa.MakeInterface:
									follow(x, depth+1)
								case *ssa.ChangeType:
									follow(x, depth+1)
								case *ssa.Phi:
									// one of several values a variable can take (`sortBy = emptySortBy` in a branch)
									follow(x, depth+1)
								}
							}
						}
						follow(u, 0)
					}
				}
			}
			c.Check(leak == "", rule, name, p.Pos(g.Pos()), "the mutable object is never handed out", "a single package-level instance of a mutable type (method "+via+" writes into it) is "+leak+": concurrent callers mutate the same object")
		}
	}
}

// isReceiver: v is the method's receiver, directly or re-loaded from the cell it was spilled to
// (receivers captured by a closure live in memory).
func isReceiver(fn *ssa.Function, v ssa.Value) bool {
	if len(fn.Params) == 0 {
		return false
	}
	if v == ssa.Value(fn.Params[0]) {
		return true
	}
	if u, ok := v.(*ssa.UnOp); ok {
		if al, ok := u.X.(*ssa.Alloc); ok {
			for _, r := range *al.Referrers() {
				if st, ok := r.(*ssa.Store); ok && st.Addr == ssa.Value(al) && st.Val == ssa.Value(fn.Params[0]) {
					return true
				}
			}
		}
	}
	return false
}
