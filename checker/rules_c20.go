package main

import (
	"fmt"
	"go/ast"
	"go/constant"
	"go/token"
	"go/types"
	"sort"

	"golang.org/x/tools/go/ssa"
)

func init() {
	register(&Property{
		ID:          "C20",
		Title:       "Public-symbol validation sees every symbol a query references",
		Technique:   "static analysis: exhaustive visitor-forwarding rule over every ast.Node implementer (SSA must-pass per child field), leaf VisitSymbol rule, never-written-field rule for typing transforms, shape check of the validator; embedded helper structs flattened; first-segment rule for map elements",
		LevelText:   "The guarantee is a shape property of the Accept methods: for every struct type implementing ast.Node, every field that can hold a child node is forwarded to with the same visitor on every path (only a nil guard on that very field or on the receiver is allowed, slices are ranged in full); every leaf symbol node reports its name through VisitSymbol unconditionally; no node field that is read is left without a writer (a typed node that silently loses a child); the validator itself overrides VisitSymbol, latches the first error and is driven through query.Accept. Complete over node kinds; does not decide which symbols a deployment marks public. Children held in embedded plain structs count as the node's children; the publicness of a dotted name is taken from its first segment only. Added in rounds 8-9: the query stored into count/isEmpty nodes is the sub-query's own object (SUBQUERYWHOLE); the validator is found by what the driver does, in struct, callback and flag-and-name shape. Added in round 10: the validator's scope push reads the current scope before overwriting it (SCOPE); no child field of an existing node is overwritten with nil (CHILDKEPT). Added in round 12: every method of the validator writes the error field only where it is still nil. Added in round 13: a node builder that answers a constant bool next to a node holding an operand has asked that operand IsConst() (OPERANDKEPT: a folded symbol never reaches the validator); a function answering one of its operands in place of a node holding them has found every operand it leaves out constant on that path.",
		LevelNote:   "Trusted: go/types, x/tools SSA; tabled: AllOfSetExprNode.name / AnyOfSetExprNode.name (string copies of the symbol whose node is the left operand of the forwarded predicate; constructor shape re-checked each run).",
		DesignRef:   "DESIGN.md C20",
		Explanation: "Sites: every named struct type in package ast whose (pointer) method set satisfies ast.Node; per type every non-embedded field whose type implements Node (directly, via pointer, interface, or slice element).",
		Trusted:     []string{"go/types", "golang.org/x/tools/go/ssa v0.29.0"},
		Rules:       rulesC20,
		Controls: []controlExpect{
			{"C20.FORWARD", "zzControlBadNode", true},
			{"C20.FORWARD", "zzControlGoodNode", false},
			{"C20.LEAF", "zzControlBadLeaf", true},
			{"C20.OPERANDKEPT", "zzControlFoldBad", true},
			{"C20.OPERANDKEPT", "zzControlFoldGood", false},
			{"C20.OPERANDKEPT", "zzControlPickBad", true},
			{"C20.OPERANDKEPT", "zzControlPickGood", false},
		},
	})
}

type nodeType struct {
	named  *types.Named
	st     *types.Struct
	accept *ssa.Function
}

// astNodeTypes enumerates struct types of package ast implementing ast.Node.
func astNodeTypes(c *Ctx) []nodeType {
	p := c.P
	nodeIface := p.Iface("ast", "Node")
	var out []nodeType
	scope := p.pkg("ast").Types.Scope()
	names := scope.Names()
	sort.Strings(names)
	for _, n := range names {
		tn, ok := scope.Lookup(n).(*types.TypeName)
		if !ok || tn.IsAlias() {
			continue
		}
		named, ok := tn.Type().(*types.Named)
		if !ok {
			continue
		}
		st, ok := named.Underlying().(*types.Struct)
		if !ok {
			continue
		}
		if !types.Implements(types.NewPointer(named), nodeIface) && !types.Implements(named, nodeIface) {
			continue
		}
		var acc *ssa.Function
		for i := 0; i < named.NumMethods(); i++ {
			if named.Method(i).Name() == "Accept" {
				acc = p.SSA.FuncValue(named.Method(i))
			}
		}
		out = append(out, nodeType{named, st, acc})
	}
	return out
}

func elemNodeType(t types.Type, nodeIface *types.Interface) (isNode, isSlice bool) {
	if sl, ok := t.Underlying().(*types.Slice); ok {
		n, _ := elemNodeType(sl.Elem(), nodeIface)
		return n, true
	}
	if types.Implements(t, nodeIface) {
		return true, false
	}
	if _, isPtr := t.Underlying().(*types.Pointer); !isPtr {
		if types.Implements(types.NewPointer(t), nodeIface) {
			return true, false
		}
	}
	return false, false
}

func rulesC20(c *Ctx) {
	p := c.P
	nodeIface := p.Iface("ast", "Node")
	visitorT := p.Named("ast", "Visitor")
	nts := astNodeTypes(c)
	c.Note(fmt.Sprintf("ast.Node struct implementers: %d", len(nts)))
	for _, nt := range nts {
		tname := "ast." + nt.named.Obj().Name()
		if nt.accept == nil {
			// Accept promoted from an embedded node (LimitExprNode/SkipExprNode declare their own)
			c.OK("C20.FORWARD", tname+": Accept", p.Pos(nt.named.Obj().Pos()), "no own Accept: promoted from an embedded node type, which is checked itself")
			continue
		}
		fn := nt.accept
		c.Analysed(FnName(fn))
		if len(fn.Params) != 2 || !types.Identical(fn.Params[1].Type(), visitorT) {
			c.Undecided("C20.FORWARD", tname+": Accept", p.Pos(fn.Pos()), "unexpected Accept signature")
			continue
		}
		recv, visitor := fn.Params[0], fn.Params[1]
		fi := ComputeFacts(fn)
		loops := loopsOf(fn)
		nChild := 0
		// the node's own fields plus those of embedded plain structs (an embedded helper struct that
		// holds children is part of the node; an embedded node type forwards through its own Accept)
		var flds []*types.Var
		var collect func(st *types.Struct, depth int)
		collect = func(st *types.Struct, depth int) {
			for i := 0; i < st.NumFields(); i++ {
				f := st.Field(i)
				if f.Embedded() {
					et := f.Type()
					if pt, isP := et.(*types.Pointer); isP {
						et = pt.Elem()
					}
					if est, isSt := et.Underlying().(*types.Struct); isSt && depth < 3 && !types.Implements(types.NewPointer(et), nodeIface) && !types.Implements(et, nodeIface) {
						collect(est, depth+1)
					}
					continue
				}
				flds = append(flds, f)
			}
		}
		collect(nt.st, 0)
		for _, fld := range flds {
			isNode, isSlice := elemNodeType(fld.Type(), nodeIface)
			if !isNode {
				continue
			}
			nChild++
			construct := tname + "." + fld.Name()
			// calls X.Accept(visitor) with X derived from this field of the receiver
			var sites []ssa.CallInstruction
			viaCollection := false
			for _, call := range callsIn(fn) {
				cc := call.Common()
				var recvV ssa.Value
				var arg ssa.Value
				if cc.IsInvoke() {
					if cc.Method.Name() != "Accept" || len(cc.Args) != 1 {
						continue
					}
					recvV, arg = cc.Value, cc.Args[0]
				} else {
					cal, _ := calleeOf(cc)
					if cal == nil || cal.Name() != "Accept" || len(cc.Args) != 2 {
						continue
					}
					recvV, arg = cc.Args[0], cc.Args[1]
				}
				if arg != ssa.Value(visitor) {
					continue
				}
				if derivesFromRecvField(recvV, recv, fld, 0) {
					sites = append(sites, call)
				} else if childViaLocalCollection(recvV, recv, fld) {
					// the children are gathered into a local array/slice literal and forwarded to in a loop
					sites = append(sites, call)
					viaCollection = true
				}
			}
			if len(sites) == 0 {
				c.Bad("C20.FORWARD", construct, p.Pos(fn.Pos()), "Accept never forwards the visitor to this child: symbols below it are invisible to validation")
				continue
			}
			isSite := func(in ssa.Instruction) bool {
				for _, s := range sites {
					if in == ssa.Instruction(s) {
						return true
					}
				}
				return false
			}
			if isSlice || viaCollection {
				// must be in a loop that ranges over the whole field and exits only at the header
				ok := false
				why := "the forwarding call is not inside a loop over the slice"
				for _, s := range sites {
					l := innermostLoop(loops, s.Block())
					if l == nil {
						continue
					}
					ok = true
					for b := range l.Blocks {
						for _, su := range b.Succs {
							if !l.Blocks[su] && b != l.Header {
								ok = false
								why = "the loop over the children can be left early at " + p.Pos(lastPos(b))
							}
						}
					}
					// loop reachable on all paths (except nil receiver)
				}
				if ok {
					// the loop header must be passed on every path to return unless the receiver is nil
					hdr := innermostLoop(loops, sites[0].Block()).Header
					if !noPathAvoiding(fn, func(in ssa.Instruction) bool { return in.Block() == hdr }, func(from, to *ssa.BasicBlock) bool {
						return fi.edgeFacts(from, to)[Fact{"nonnil", recv, false}]
					}) {
						ok = false
						why = "a return is reachable without iterating the children (and not because the receiver is nil)"
					}
				}
				c.Check(ok, "C20.FORWARD", construct, p.Pos(sites[0].Pos()), "every element is forwarded to (full range loop on every path)", why)
				continue
			}
			ri := reachWithout(fn, isSite)
			ok := true
			why := ""
			for _, r := range returnsOf(fn) {
				if !ri.Reaches(r) {
					continue
				}
				// allowed: nil guard on that very field, or on the receiver
				guard := fi.HoldsWhere(r.Block(), func(f Fact) bool {
					if f.Kind != "nonnil" || f.Pol {
						return false
					}
					if f.V == ssa.Value(recv) {
						return true
					}
					ff, base := loadedField(f.V)
					return sameVar(ff, fld) && base == ssa.Value(recv)
				})
				if !guard {
					// the guard fact may have been merged away at the join: check every path
					// around the call is through the nil edge
					if pathOnlyViaNilEdge(fn, fi, sites, recv, fld) {
						continue
					}
					ok = false
					why = "a return at " + p.Pos(r.Pos()) + " is reachable without forwarding to this child (and not because the child is nil)"
				}
			}
			c.Check(ok, "C20.FORWARD", construct, p.Pos(sites[0].Pos()), "forwarded to with the same visitor on every path (nil guard on the child/receiver allowed)", why)
		}
		if nChild == 0 {
			c.OK("C20.FORWARD", tname+": no child nodes", p.Pos(fn.Pos()), "no field can hold a child node")
		}
	}
	c.Floor("C20.FORWARD", 60)
	ruleC20Leaf(c, nts)
	ruleNeverWritten(c, "C20.TRANSFORM", nts)
	ruleChildNotDropped(c, "C20.CHILDKEPT", nts)
	ruleOperandNotFolded(c, "C20.OPERANDKEPT")
	ruleSubQueryWhole(c, "C20.SUBQUERYWHOLE")
	ruleC20Validator(c)
	ruleC20SetNames(c)
	ruleC20SortSource(c)
	ruleScopePush(c, "C20.SCOPE", "ast")
}

// ruleC20SortSource: the sort fields a query is evaluated with are the ones validation sees.  Accept
// forwards the visitor to the SortBy child; GetSortFields (what the scanners sort by) therefore reads
// SortBy — or a field that is only ever filled from the same node's SortBy (a cache), never from
// somewhere validation does not look (another query's fields, a caller-supplied list).
func ruleC20SortSource(c *Ctx) {
	p := c.P
	qn := p.Named("ast", "queryNode")
	sortBy := p.Field("ast", "queryNode", "SortBy")
	fn := p.SSAFunc(p.Method("ast", "queryNode", "GetSortFields"))
	name := FnName(fn)
	c.Analysed(name)
	recv := ssa.Value(fn.Params[0])
	// fields of the receiver read by GetSortFields
	other := map[*types.Var]token.Pos{}
	readsSortBy := false
	for _, b := range fn.Blocks {
		for _, in := range b.Instrs {
			fa, ok := in.(*ssa.FieldAddr)
			if !ok {
				continue
			}
			f, base := fieldOfAddr(fa)
			if base != recv {
				continue
			}
			if f != nil && f.Embedded() && onlyFieldAddrUsers(fa) {
				continue // the embedded part is only the way to a promoted field, seen on its own
			}
			if sameVar(f, sortBy) {
				readsSortBy = true
			} else if f != nil {
				other[f] = fa.Pos()
			}
		}
	}
	ok, why := readsSortBy, "GetSortFields does not read the SortBy child that Accept forwards the visitor to"
	var fromOwnSortBy func(v ssa.Value, base ssa.Value, depth int) bool
	fromOwnSortBy = func(v ssa.Value, base ssa.Value, depth int) bool {
		if v == nil || depth > 6 {
			return false
		}
		if f, b := loadedField(v); sameVar(f, sortBy) && b == base {
			return true
		}
		in, isIn := v.(ssa.Instruction)
		if !isIn {
			return false
		}
		if _, isPhi := v.(*ssa.Phi); isPhi {
			all := true
			for _, op := range in.Operands(nil) {
				if k, isK := (*op).(*ssa.Const); isK && k.IsNil() {
					continue
				}
				if !fromOwnSortBy(*op, base, depth+1) {
					all = false
				}
			}
			return all
		}
		for _, op := range in.Operands(nil) {
			if *op != nil && fromOwnSortBy(*op, base, depth+1) {
				return true
			}
		}
		return false
	}
	for f, pos := range other {
		// every writer of that field in the package stores something derived from the same node's SortBy (or nil)
		for _, w := range c.prodFuncs("ast") {
			for _, b := range w.Blocks {
				for _, in := range b.Instrs {
					st, isSt := in.(*ssa.Store)
					if !isSt {
						continue
					}
					wf, base := fieldOfAddr(st.Addr)
					if !sameVar(wf, f) || namedOf(base.Type()) != qn {
						continue
					}
					if k, isK := st.Val.(*ssa.Const); isK && k.IsNil() {
						continue
					}
					if !fromOwnSortBy(st.Val, base, 0) {
						ok = false
						why = "GetSortFields reads the field " + f.Name() + " (at " + p.Pos(pos) + "), which " + FnName(w) + " fills at " + p.Pos(st.Pos()) + " with " + describeValue(st.Val) + " — not derived from the same node's SortBy child: the query sorts by fields that Accept never shows to the validator"
					}
				}
			}
		}
	}
	c.Check(ok, "C20.SORTSOURCE", name, p.Pos(fn.Pos()), "the sort fields used for evaluation come from the SortBy child that Accept visits", why)
	c.Floor("C20.SORTSOURCE", 1)
}

// pathOnlyViaNilEdge: every path from entry to exit that avoids all sites passes an edge on which
// the field (loaded from recv) is nil or the receiver is nil.
func pathOnlyViaNilEdge(fn *ssa.Function, fi *FactInfo, sites []ssa.CallInstruction, recv ssa.Value, fld *types.Var) bool {
	isSiteBlock := map[*ssa.BasicBlock]bool{}
	for _, s := range sites {
		isSiteBlock[s.Block()] = true
	}
	nilEdge := func(from, to *ssa.BasicBlock) bool {
		for f := range fi.edgeFacts(from, to) {
			if f.Kind == "nonnil" && !f.Pol {
				if f.V == recv {
					return true
				}
				if ff, base := loadedField(f.V); sameVar(ff, fld) && base == recv {
					return true
				}
			}
		}
		return false
	}
	// search for a path avoiding site blocks and nil edges to any return
	seen := map[*ssa.BasicBlock]bool{}
	var dfs func(b *ssa.BasicBlock) bool
	dfs = func(b *ssa.BasicBlock) bool {
		if seen[b] || isSiteBlock[b] {
			return false
		}
		seen[b] = true
		if len(b.Succs) == 0 {
			if _, isRet := b.Instrs[len(b.Instrs)-1].(*ssa.Return); isRet {
				return true
			}
			return false
		}
		for _, s := range b.Succs {
			if nilEdge(b, s) {
				continue
			}
			if dfs(s) {
				return true
			}
		}
		return false
	}
	return !dfs(fn.Blocks[0])
}

func derivesFromRecvField(v ssa.Value, recv ssa.Value, fld *types.Var, depth int) bool {
	if depth > 8 || v == nil {
		return false
	}
	switch x := v.(type) {
	case *ssa.UnOp:
		if f, base := loadedField(x); sameVar(f, fld) && baseIsRecv(base, recv, 0) {
			return true
		}
		return derivesFromRecvField(x.X, recv, fld, depth+1)
	case *ssa.FieldAddr:
		if f, base := fieldOfAddr(x); sameVar(f, fld) && baseIsRecv(base, recv, 0) {
			return true
		}
		return false
	case *ssa.IndexAddr:
		return derivesFromRecvField(x.X, recv, fld, depth+1)
	case *ssa.MakeInterface:
		return derivesFromRecvField(x.X, recv, fld, depth+1)
	case *ssa.ChangeInterface:
		return derivesFromRecvField(x.X, recv, fld, depth+1)
	case *ssa.ChangeType:
		return derivesFromRecvField(x.X, recv, fld, depth+1)
	case *ssa.Phi:
		for _, e := range x.Edges {
			if !derivesFromRecvField(e, recv, fld, depth+1) {
				return false
			}
		}
		return len(x.Edges) > 0
	}
	return false
}

// ---- LEAF ------------------------------------------------------------------------------------

func ruleC20Leaf(c *Ctx, nts []nodeType) {
	p := c.P
	visitSymbol := p.Method("ast", "Visitor", "VisitSymbol")
	symbolNode := p.Iface("ast", "SymbolNode")
	n := 0
	for _, nt := range nts {
		if !types.Implements(types.NewPointer(nt.named), symbolNode) {
			continue
		}
		// leaf: Symbol() returns a string field of the receiver
		var symFn *ssa.Function
		for i := 0; i < nt.named.NumMethods(); i++ {
			if nt.named.Method(i).Name() == "Symbol" {
				symFn = p.SSA.FuncValue(nt.named.Method(i))
			}
		}
		if symFn == nil || nt.accept == nil {
			continue
		}
		var nameField *types.Var
		for _, r := range returnsOf(symFn) {
			if len(r.Results) == 1 {
				if f, base := loadedField(r.Results[0]); f != nil && base == ssa.Value(symFn.Params[0]) && types.Identical(f.Type(), types.Typ[types.String]) {
					nameField = f
				}
			}
		}
		if nameField == nil {
			continue // composite: Symbol() delegates to a child
		}
		tname := "ast." + nt.named.Obj().Name()
		if why, ok := leafExceptions[tname]; ok {
			c.OK("C20.LEAF", tname, p.Pos(nt.accept.Pos()), "tabled: "+why)
			continue
		}
		n++
		fn := nt.accept
		isVS := func(in ssa.Instruction) bool {
			call, ok := in.(ssa.CallInstruction)
			if !ok || !isCallTo(in, visitSymbol) || call.Common().Value != ssa.Value(fn.Params[1]) {
				return false
			}
			f, base := loadedField(call.Common().Args[0])
			if sameVar(f, nameField) && base == ssa.Value(fn.Params[0]) {
				return true
			}
			// ... or through the node's own Symbol() accessor (which returns that field)
			if k, isCall := call.Common().Args[0].(*ssa.Call); isCall && !k.Call.IsInvoke() {
				if sc := k.Call.StaticCallee(); sc != nil && (sc == symFn || sc.Origin() == symFn) && len(k.Call.Args) == 1 && k.Call.Args[0] == ssa.Value(fn.Params[0]) {
					return true
				}
			}
			return false
		}
		ri := reachWithout(fn, isVS)
		ok := true
		for _, r := range returnsOf(fn) {
			if ri.Reaches(r) {
				ok = false
			}
		}
		c.Check(ok, "C20.LEAF", tname, p.Pos(fn.Pos()), "Accept reports the symbol name through visitor.VisitSymbol on every path", "a leaf symbol node can be visited without reporting its name through VisitSymbol")
	}
	c.Floor("C20.LEAF", 7)
}

var leafExceptions = map[string]string{
	"ast.AllOfSetExprNode": "name is a copy of the set symbol's name; the symbol node itself is the left operand of the forwarded predicate (constructor shape checked by C20.SETNAME)",
	"ast.AnyOfSetExprNode": "name is a copy of the set symbol's name; the symbol node itself is the left operand of the forwarded predicate (constructor shape checked by C20.SETNAME)",
}

// ruleC20SetNames re-checks the reason behind leafExceptions: AllOf/AnyOf literals are built only
// inside SetFunctionNode methods with name: node.symbol.Symbol().
func ruleC20SetNames(c *Ctx) {
	p := c.P
	sfn := p.Named("ast", "SetFunctionNode")
	symFld := p.Field("ast", "SetFunctionNode", "symbol")
	for _, tn := range []string{"AllOfSetExprNode", "AnyOfSetExprNode"} {
		named := p.Named("ast", tn)
		nameFld := p.Field("ast", tn, "name")
		n := 0
		// every place that builds such a node (a method of SetFunctionNode, an entry of a constructor table,
		// a helper handed the set function node): the name it is given is <set function node>.symbol.Symbol()
		for _, fn := range c.prodFuncs("ast") {
			for _, b := range fn.Blocks {
				for _, in := range b.Instrs {
					st, ok := in.(*ssa.Store)
					if !ok {
						continue
					}
					f, base := fieldOfAddr(st.Addr)
					if !sameVar(f, nameFld) || namedOf(base.Type()) != named {
						continue
					}
					n++
					construct := "ast." + tn + " built in " + FnName(fn)
					c.Analysed(FnName(fn))
					okShape := false
					if call, isCall := st.Val.(*ssa.Call); isCall && call.Call.IsInvoke() && call.Call.Method.Name() == "Symbol" {
						if sf, sbase := loadedField(call.Call.Value); sameVar(sf, symFld) && sbase != nil {
							if pt, isP := sbase.Type().(*types.Pointer); isP && namedOf(pt.Elem()) == sfn {
								okShape = true
							}
						}
					}
					c.Check(okShape, "C20.SETNAME", construct, p.Pos(st.Pos()), "named after the set function node's symbol: name = node.symbol.Symbol()", "a set-expression node is built with a name that is not the forwarded symbol's name: the tabled leaf exception no longer holds")
				}
			}
		}
		if n == 0 {
			c.Bad("C20.SETNAME", "ast."+tn, "-", "no construction site found")
		}
	}
}

// ---- never-written fields ----------------------------------------------------------------------

// ruleNeverWritten: a field of a node struct that is read by its methods but has no writer anywhere
// in the package (composite-literal key, positional literal, or assignment) is a silently lost operand.
func ruleNeverWritten(c *Ctx, rule string, nts []nodeType) {
	p := c.P
	pk := p.pkg("ast")
	written := map[*types.Var]bool{}
	read := map[*types.Var]bool{}
	for _, f := range pk.Syntax {
		ast.Inspect(f, func(n ast.Node) bool {
			switch x := n.(type) {
			case *ast.CompositeLit:
				t := pk.TypesInfo.TypeOf(x)
				if t == nil {
					return true
				}
				st, ok := derefType(t).Underlying().(*types.Struct)
				if !ok {
					return true
				}
				for i, el := range x.Elts {
					if kv, ok := el.(*ast.KeyValueExpr); ok {
						if id, ok := kv.Key.(*ast.Ident); ok {
							if v, ok := pk.TypesInfo.Uses[id].(*types.Var); ok && v.IsField() {
								if !isZeroLit(kv.Value) {
									written[v] = true
								}
							}
						}
					} else if i < st.NumFields() {
						written[st.Field(i)] = true
					}
				}
			case *ast.AssignStmt:
				for _, l := range x.Lhs {
					if sel, ok := l.(*ast.SelectorExpr); ok {
						if s := pk.TypesInfo.Selections[sel]; s != nil && s.Kind() == types.FieldVal {
							written[s.Obj().(*types.Var)] = true
						}
					}
				}
			case *ast.UnaryExpr:
				// &x.f handed out: counts as a potential writer
				if sel, ok := x.X.(*ast.SelectorExpr); ok && x.Op.String() == "&" {
					if s := pk.TypesInfo.Selections[sel]; s != nil && s.Kind() == types.FieldVal {
						written[s.Obj().(*types.Var)] = true
					}
				}
			case *ast.SelectorExpr:
				if s := pk.TypesInfo.Selections[x]; s != nil && s.Kind() == types.FieldVal {
					read[s.Obj().(*types.Var)] = true
				}
			}
			return true
		})
	}
	n := 0
	for _, nt := range nts {
		for i := 0; i < nt.st.NumFields(); i++ {
			fld := nt.st.Field(i)
			if fld.Embedded() || !read[fld] {
				continue
			}
			n++
			construct := "ast." + nt.named.Obj().Name() + "." + fld.Name()
			c.Check(written[fld], rule, construct, p.Pos(fld.Pos()), "the field has at least one writer", "the field is read (Eval/Accept) but nothing in the package ever sets it: the typed node silently drops this operand/child")
		}
	}
	c.Floor(rule, 60)
}

func isZeroLit(e ast.Expr) bool {
	if id, ok := e.(*ast.Ident); ok && id.Name == "nil" {
		return true
	}
	return false
}

// ---- validator ---------------------------------------------------------------------------------

// validatorShape: the visitor ValidateSymbolsArePublic walks the query with, found by what the driver does: the
// object handed to query.Accept, and the place the driver's result is read from (a field of that object, or a
// local variable a callback of that object writes).
type validatorShape struct {
	drv    *ssa.Function
	accept ssa.CallInstruction
	obj    ssa.Value    // the visitor object (pointer)
	typ    *types.Named // its type
	errFld *types.Var   // the latch, when it is a field of the visitor
	cell   *ssa.Alloc   // the latch, when it is a local of the driver written by a callback
	// the latch as a flag of the visitor plus the offending name, the error being made by the driver afterwards
	flagFld, nameFld *types.Var
}

func discoverValidator(c *Ctx) *validatorShape {
	p := c.P
	drv := p.SSAFunc(p.Func("boltz", "ValidateSymbolsArePublic"))
	vsh := &validatorShape{drv: drv}
	for _, call := range callsIn(drv) {
		cc := call.Common()
		if cc.IsInvoke() && cc.Method.Name() == "Accept" && len(drv.Params) > 0 && cc.Value == ssa.Value(drv.Params[0]) && len(cc.Args) == 1 {
			vsh.accept = call
		}
	}
	if vsh.accept == nil {
		return vsh
	}
	mi, ok := vsh.accept.Common().Args[0].(*ssa.MakeInterface)
	if !ok {
		return vsh
	}
	vsh.obj = mi.X
	vsh.typ = namedOf(mi.X.Type())
	dfi := factsOf(drv)
	for _, r := range returnsOf(drv) {
		if len(r.Results) != 1 {
			continue
		}
		// an error made here from a name the visitor kept, under a flag of the visitor
		res0 := r.Results[0]
		if mi, isMI := res0.(*ssa.MakeInterface); isMI {
			res0 = mi.X
		}
		if mk, isCall := res0.(*ssa.Call); isCall && len(mk.Call.Args) >= 1 {
			if cal, _ := calleeOf(mk.Common()); cal != nil && isErrorCtor(cal) {
				nf, nbase := loadedField(mk.Call.Args[0])
				var ff *types.Var
				dfi.HoldsWhere(r.Block(), func(f Fact) bool {
					g, base := loadedField(f.V)
					if f.Kind == "true" && f.Pol && g != nil && base == vsh.obj && isBoolType(g.Type()) {
						ff = g
						return true
					}
					return false
				})
				if nf != nil && nbase == vsh.obj && ff != nil {
					vsh.flagFld, vsh.nameFld = ff, nf
				}
			}
		}
		if f, base := loadedField(r.Results[0]); f != nil && base == vsh.obj {
			vsh.errFld = f
		}
		if ld, isLd := r.Results[0].(*ssa.UnOp); isLd && ld.Op == token.MUL {
			if al, isAl := ld.X.(*ssa.Alloc); isAl {
				vsh.cell = al
			}
		}
	}
	return vsh
}

func ruleC20Validator(c *Ctx) {
	p := c.P
	vsh := discoverValidator(c)
	if vsh.typ == nil || (vsh.errFld == nil && vsh.cell == nil && vsh.flagFld == nil) {
		// not recognisable by what the driver does: the names the rule was written against
		vsh.typ = p.Named("boltz", "publicSymbolValidator")
		vsh.errFld = p.Field("boltz", "publicSymbolValidator", "err")
	}
	val := vsh.typ
	// VisitSymbol must be declared on the validator itself, not inherited from DefaultVisitor
	obj, _, _ := types.LookupFieldOrMethod(types.NewPointer(val), true, p.pkg("boltz").Types, "VisitSymbol")
	vs, _ := obj.(*types.Func)
	own := vs != nil && namedOf(recvType(vs)) == val
	c.Check(own, "C20.VALIDATOR", "boltz.publicSymbolValidator.VisitSymbol", p.Pos(val.Obj().Pos()), "VisitSymbol is declared on the validator", "VisitSymbol resolves to an embedded (no-op) implementation: no symbol is ever checked")
	if !own {
		return
	}
	if vsh.errFld == nil && vsh.cell != nil {
		ruleC20ValidatorCallback(c, vsh, p.SSAFunc(vs))
		return
	}
	if vsh.errFld == nil && vsh.flagFld != nil {
		ruleC20ValidatorFlag(c, vsh, p.SSAFunc(vs))
		return
	}
	fn := p.SSAFunc(vs)
	c.Analysed(FnName(fn))
	errFld := vsh.errFld
	isPublic := p.Method("boltz", "Store", "IsPublicSymbol")
	_ = isPublic
	fi := ComputeFacts(fn)
	// the visibility test on the visited symbol: IsPublicSymbol(symbol) asked of the store directly, of a
	// narrower interface, or through a function-typed field that only ever holds closures doing exactly that
	var asksVisibility func(f *ssa.Function) bool
	asksVisibility = func(f *ssa.Function) bool {
		if f == nil || f.Blocks == nil || len(f.Params) == 0 {
			return false
		}
		rets := returnsOf(f)
		if len(rets) == 0 {
			return false
		}
		for _, r := range rets {
			if len(r.Results) != 1 {
				return false
			}
			k, isCall := r.Results[0].(*ssa.Call)
			if !isCall || !invokeNamed(k, "IsPublicSymbol") {
				return false
			}
			args := k.Call.Args
			if len(args) == 0 {
				return false
			}
			if _, isPrm := args[len(args)-1].(*ssa.Parameter); !isPrm {
				return false
			}
		}
		return true
	}
	isPublicTest := func(in ssa.Instruction) bool {
		call, ok := in.(*ssa.Call)
		if !ok {
			return false
		}
		args := call.Call.Args
		if len(args) == 0 || args[len(args)-1] != ssa.Value(fn.Params[1]) {
			return false
		}
		if invokeNamed(call, "IsPublicSymbol") {
			return true
		}
		if call.Call.IsInvoke() || call.Call.StaticCallee() != nil {
			return false
		}
		fld, base := loadedField(call.Call.Value)
		if fld == nil || base != ssa.Value(fn.Params[0]) {
			return false
		}
		n := 0
		for _, w := range c.prodFuncs("boltz") {
			for _, b := range w.Blocks {
				for _, wi := range b.Instrs {
					st, isSt := wi.(*ssa.Store)
					if !isSt {
						continue
					}
					if wf, _ := fieldOfAddr(st.Addr); !sameVar(wf, fld) {
						continue
					}
					n++
					targets := closuresOf(st.Val, 0)
					if len(targets) == 0 {
						return false
					}
					for _, target := range targets {
						if !asksVisibility(target) {
							return false
						}
					}
				}
			}
		}
		return n > 0
	}
	// a store to .err exists, under: IsPublicSymbol(symbol) false and err == nil
	found, guarded := false, false
	for _, b := range fn.Blocks {
		for _, in := range b.Instrs {
			st, ok := in.(*ssa.Store)
			if !ok {
				continue
			}
			if f, base := fieldOfAddr(st.Addr); sameVar(f, errFld) && base == ssa.Value(fn.Params[0]) {
				found = true
				notPublic := fi.HoldsWhere(b, func(ft Fact) bool {
					if ft.Kind != "true" || ft.Pol {
						return false
					}
					call, ok := ft.V.(*ssa.Call)
					return ok && isPublicTest(call)
				})
				first := fi.HoldsWhere(b, func(ft Fact) bool {
					if ft.Kind != "nonnil" || ft.Pol {
						return false
					}
					ff, base := loadedField(ft.V)
					return sameVar(ff, errFld) && base == ssa.Value(fn.Params[0])
				})
				guarded = notPublic && first
			}
		}
	}
	// ... and on EVERY path where the symbol is not public and no error is latched (no extra condition)
	if found && guarded {
		isErrStore := func(in ssa.Instruction) bool {
			st, ok := in.(*ssa.Store)
			if !ok {
				return false
			}
			f, _ := fieldOfAddr(st.Addr)
			return sameVar(f, errFld)
		}
		guarded = noPathAvoiding(fn, isErrStore, func(from, to *ssa.BasicBlock) bool {
			for ft := range fi.edgeFacts(from, to) {
				if ft.Kind == "true" && ft.Pol {
					if k, isCall := ft.V.(*ssa.Call); isCall && isPublicTest(k) {
						return true
					}
				}
				if ft.Kind == "nonnil" && ft.Pol {
					if ff, _ := loadedField(ft.V); sameVar(ff, errFld) {
						return true
					}
				}
			}
			return false
		})
	}
	if !(found && guarded) {
		// decided instead: run VisitSymbol for (error already latched?) x (symbol public?) and look at what it
		// stores into the error field — however the test and the store are arranged (a helper returning the
		// error, a guard clause)
		errIdx := -1
		if vt, isSt := derefType(fn.Params[0].Type()).Underlying().(*types.Struct); isSt {
			for i := 0; i < vt.NumFields(); i++ {
				if sameVar(vt.Field(i), errFld) {
					errIdx = i
				}
			}
		}
		decidedAll, good := errIdx >= 0, true
		for _, latched := range []bool{false, true} {
			for _, public := range []bool{false, true} {
				asked := 0
				oracle := func(v ssa.Value) (AV, bool) {
					if v == ssa.Value(fn.Params[0]) {
						return AV{Kind: "nonnil", Sym: "alloc:recv"}, true
					}
					if call, isCall := v.(*ssa.Call); isCall {
						if isPublicTest(call) {
							asked++
							return avBool(public), true
						}
						if cal, _ := calleeOf(call.Common()); cal != nil && isErrorCtor(cal) {
							return AV{Kind: "nonnil", Sym: "newerr"}, true
						}
					}
					if u, isU := v.(*ssa.UnOp); isU && u.Op == token.MUL {
						if ff, base := loadedField(u); sameVar(ff, errFld) && base == ssa.Value(fn.Params[0]) {
							if latched {
								return AV{Kind: "nonnil", Sym: "olderr"}, true
							}
							return AV{Kind: "nil"}, true
						}
					}
					return AV{}, false
				}
				_, mem, derr := DecideMem(fn, oracle)
				if derr != "" {
					decidedAll = false
					continue
				}
				stored, wrote := mem[fmt.Sprintf("arecv.f%d", errIdx)]
				switch {
				case latched:
					if wrote && stored.Sym != "olderr" {
						good = false // the first error is replaced
					}
				case public:
					if wrote && stored.Kind != "nil" {
						good = false
					}
				default:
					if !wrote || stored.Kind != "nonnil" || asked == 0 {
						good = false
					}
				}
			}
		}
		if decidedAll {
			found, guarded = true, good
		}
	}
	c.Check(found && guarded, "C20.VALIDATOR", "boltz.publicSymbolValidator.VisitSymbol: latch", p.Pos(fn.Pos()),
		"records an error exactly when IsPublicSymbol(symbol) is false, keeping the first error", "the validator does not record an error under !IsPublicSymbol(symbol) && err == nil")
	// ... and no other method of the validator overwrites a recorded error: every store into the error field
	// sits where the field is known to be nil (the first error wins), or stores a value known not to be nil
	for _, other := range c.prodFuncs("boltz") {
		if other == fn || other.Signature.Recv() == nil || namedOf(other.Signature.Recv().Type()) != val || len(other.Params) == 0 {
			continue
		}
		var ofi *FactInfo
		for _, b := range other.Blocks {
			for _, in := range b.Instrs {
				st, isSt := in.(*ssa.Store)
				if !isSt {
					continue
				}
				f, base := fieldOfAddr(st.Addr)
				if !sameVar(f, errFld) || base != ssa.Value(other.Params[0]) {
					continue
				}
				if ofi == nil {
					ofi = factsOf(other)
				}
				firstWins := ofi.HoldsWhere(b, func(ft Fact) bool {
					ff, fb := loadedField(ft.V)
					return ft.Kind == "nonnil" && !ft.Pol && sameVar(ff, errFld) && fb == ssa.Value(other.Params[0])
				})
				c.Analysed(FnName(other))
				c.Check(firstWins, "C20.VALIDATOR", FnName(other)+": writes the validator's error", p.Pos(st.Pos()), "the error field is written only where no error is recorded yet", "another method of the validator stores into the error field without testing that it is still nil: a later visit (a sort field that is fine) wipes the unknown-symbol error recorded earlier, so a query using a non-public symbol is accepted")
			}
		}
	}
	// the rejecting path must be reachable whenever the symbol is not public: no return before the test
	early := !noPathAvoiding(fn, isPublicTest, func(from, to *ssa.BasicBlock) bool {
		for ft := range fi.edgeFacts(from, to) {
			if ft.Kind == "nonnil" && ft.Pol {
				if ff, _ := loadedField(ft.V); sameVar(ff, errFld) {
					return true
				}
			}
		}
		return false
	})
	c.Check(!early, "C20.VALIDATOR", "boltz.publicSymbolValidator.VisitSymbol: always tests", p.Pos(fn.Pos()), "every path tests IsPublicSymbol unless an error is already latched", "a path returns without testing the symbol although no error is latched")

	// driver
	drv := vsh.drv
	c.Analysed(FnName(drv))
	var accept ssa.CallInstruction
	for _, call := range callsIn(drv) {
		cc := call.Common()
		if cc.IsInvoke() && cc.Method.Name() == "Accept" && cc.Value == ssa.Value(drv.Params[0]) {
			accept = call
		}
	}
	okDrv := accept != nil
	why := "query.Accept(visitor) is not called"
	if okDrv {
		// the argument is a publicSymbolValidator
		arg := accept.Common().Args[0]
		if mi, ok := arg.(*ssa.MakeInterface); !ok || namedOf(mi.X.Type()) != val {
			okDrv = false
			why = "the visitor passed to Accept is not the publicSymbolValidator"
		} else {
			ri := reachWithout(drv, func(in ssa.Instruction) bool { return in == ssa.Instruction(accept) })
			for _, r := range returnsOf(drv) {
				if ri.Reaches(r) {
					okDrv = false
					why = "a return is reachable without traversing the query"
				}
				if f, base := loadedField(r.Results[0]); !sameVar(f, errFld) || base != mi.X {
					okDrv = false
					why = "the result is not the validator's latched error"
				}
			}
		}
	}
	c.Check(okDrv, "C20.VALIDATOR", "boltz.ValidateSymbolsArePublic", p.Pos(drv.Pos()), "traverses the query with the validator and returns its latched error", why)

	ruleC20IsPublicSymbol(c)
	c.Floor("C20.VALIDATOR", 5)
}

// ruleC20IsPublicSymbol: every true answer of IsPublicSymbol is backed by a lookup in publicSymbols.
func ruleC20IsPublicSymbol(c *Ctx) {
	p := c.P
	// IsPublicSymbol: every returned value is false or comes from a lookup in publicSymbols
	ips := p.SSAFunc(p.Method("boltz", "BaseStore", "IsPublicSymbol"))
	c.Analysed(FnName(ips))
	pub := p.Field("boltz", "BaseStore", "publicSymbols")
	mapSyms := p.Field("boltz", "BaseStore", "mapSymbols")
	fi2 := ComputeFacts(ips)
	okIPS := true
	whyIPS := ""
	fromLookup := func(v ssa.Value) bool {
		ex, ok := v.(*ssa.Extract)
		if !ok || ex.Index != 1 {
			return false
		}
		lk, ok := ex.Tuple.(*ssa.Lookup)
		return ok && lk.CommaOk && derivesFromField(lk.X, pub, 0)
	}
	for _, r := range returnsOf(ips) {
		v := r.Results[0]
		if b, isConst := boolConst(v); isConst {
			if !b {
				continue
			}
			// `return true` must sit under a successful lookup in publicSymbols
			if fi2.HoldsWhere(r.Block(), func(f Fact) bool { return f.Kind == "true" && f.Pol && fromLookup(f.V) }) {
				continue
			}
			okIPS = false
			whyIPS = "returns true at " + p.Pos(r.Pos()) + " without a successful lookup in publicSymbols"
			continue
		}
		if !fromLookup(v) {
			okIPS = false
			whyIPS = "returns a value at " + p.Pos(r.Pos()) + " that is not the outcome of a lookup in publicSymbols"
			continue
		}
		// a lookup keyed by something other than the full symbol (the part before the dot) is
		// only valid for elements of MAP symbols: it must sit under a successful mapSymbols lookup
		lk := v.(*ssa.Extract).Tuple.(*ssa.Lookup)
		if lk.Index != ssa.Value(ips.Params[1]) {
			// ... and the key must be the FIRST segment of the name: a map element is public with its
			// map, and nothing reached through another symbol is
			if !isFirstSegmentOf(lk.Index, ips.Params[1]) {
				okIPS = false
				whyIPS = "the publicness of a dotted symbol is taken from a segment that is not provably its first one (" + describeValue(lk.Index) + "): paths through non-public links (places.tags.kind) become public with an inner map"
			}
			if !fi2.HoldsWhere(r.Block(), func(f Fact) bool {
				ex, ok := f.V.(*ssa.Extract)
				if f.Kind != "true" || !f.Pol || !ok || ex.Index != 1 {
					return false
				}
				ml, ok := ex.Tuple.(*ssa.Lookup)
				return ok && ml.CommaOk && derivesFromField(ml.X, mapSyms, 0)
			}) {
				okIPS = false
				whyIPS = "a dotted symbol is declared public from its first segment without establishing that the segment is a map symbol (linked-entity paths such as places.name become public with places)"
			}
		}
	}
	c.Check(okIPS, "C20.VALIDATOR", "boltz.BaseStore.IsPublicSymbol", p.Pos(ips.Pos()), "every true answer is backed by a lookup in publicSymbols", whyIPS)
}

// ruleC20ValidatorCallback: the validator as a visitor that hands every symbol to a callback made by the driver;
// the callback tests the symbol and writes the driver's result variable.  Decided the same way as the struct
// form: the callback is run for (error already recorded?) x (symbol public?) and what it leaves in the result
// variable is compared with the latch's contract.
func ruleC20ValidatorCallback(c *Ctx, vsh *validatorShape, vs *ssa.Function) {
	p := c.P
	drv := vsh.drv
	c.Analysed(FnName(vs))
	c.Analysed(FnName(drv))
	// (1) VisitSymbol hands its symbol to a function kept in a field of the visitor, on every path
	var cbFld *types.Var
	argNo := -1
	isForward := func(in ssa.Instruction) bool {
		call, ok := in.(*ssa.Call)
		if !ok || call.Call.IsInvoke() || call.Call.StaticCallee() != nil {
			return false
		}
		f, base := loadedField(call.Call.Value)
		if f == nil || base != ssa.Value(vs.Params[0]) {
			return false
		}
		for i, a := range call.Call.Args {
			if a == ssa.Value(vs.Params[1]) {
				cbFld, argNo = f, i
				return true
			}
		}
		return false
	}
	forwards := noPathAvoiding(vs, isForward, nil)
	c.Check(forwards && cbFld != nil, "C20.VALIDATOR", "boltz.publicSymbolValidator.VisitSymbol: always tests", p.Pos(vs.Pos()), "every visited symbol is handed to the visitor's callback", "a path of VisitSymbol returns without handing the symbol to the callback: that symbol is never checked")
	if cbFld == nil {
		return
	}
	// (2) the callback the driver installs: the one closure stored into that field of the visitor it builds
	var cb *ssa.Function
	var mk *ssa.MakeClosure
	nStores := 0
	for _, b := range drv.Blocks {
		for _, in := range b.Instrs {
			st, ok := in.(*ssa.Store)
			if !ok {
				continue
			}
			if f, base := fieldOfAddr(st.Addr); !sameVar(f, cbFld) || base != vsh.obj {
				continue
			}
			nStores++
			v := st.Val
			if ct, isCT := v.(*ssa.ChangeType); isCT {
				v = ct.X
			}
			if m, isMk := v.(*ssa.MakeClosure); isMk {
				mk = m
				cb, _ = m.Fn.(*ssa.Function)
			}
		}
	}
	if cb == nil || nStores != 1 || argNo >= len(cb.Params) {
		c.Undecided("C20.VALIDATOR", "boltz.publicSymbolValidator.VisitSymbol: latch", p.Pos(drv.Pos()), "the callback the driver installs in the visitor cannot be identified")
		return
	}
	c.Analysed(FnName(cb))
	var latch *ssa.FreeVar
	for i, bnd := range mk.Bindings {
		if bnd == ssa.Value(vsh.cell) && i < len(cb.FreeVars) {
			latch = cb.FreeVars[i]
		}
	}
	if latch == nil {
		c.Bad("C20.VALIDATOR", "boltz.publicSymbolValidator.VisitSymbol: latch", p.Pos(cb.Pos()), "the callback does not write the variable the driver returns: no error is ever reported")
		return
	}
	sym := ssa.Value(cb.Params[argNo])
	isPublicTest := func(call *ssa.Call) bool {
		args := call.Call.Args
		return invokeNamed(call, "IsPublicSymbol") && len(args) > 0 && args[len(args)-1] == sym
	}
	decidedAll, good := true, true
	for _, latched := range []bool{false, true} {
		for _, public := range []bool{false, true} {
			asked := 0
			oracle := func(v ssa.Value) (AV, bool) {
				if v == ssa.Value(latch) {
					return AV{Kind: "nonnil", Sym: "alloc:latch"}, true
				}
				if call, isCall := v.(*ssa.Call); isCall {
					if isPublicTest(call) {
						asked++
						return avBool(public), true
					}
					if cal, _ := calleeOf(call.Common()); cal != nil && isErrorCtor(cal) {
						return AV{Kind: "nonnil", Sym: "newerr"}, true
					}
				}
				if u, isU := v.(*ssa.UnOp); isU && u.Op == token.MUL && u.X == ssa.Value(latch) {
					if latched {
						return AV{Kind: "nonnil", Sym: "olderr"}, true
					}
					return AV{Kind: "nil"}, true
				}
				return AV{}, false
			}
			_, mem, derr := DecideMem(cb, oracle)
			if derr != "" {
				decidedAll = false
				continue
			}
			stored, wrote := mem["alatch"]
			switch {
			case latched:
				if wrote && stored.Sym != "olderr" {
					good = false
				}
			case public:
				if wrote && stored.Kind != "nil" {
					good = false
				}
			default:
				if !wrote || stored.Kind != "nonnil" || asked == 0 {
					good = false
				}
			}
		}
	}
	if !decidedAll {
		c.Undecided("C20.VALIDATOR", "boltz.publicSymbolValidator.VisitSymbol: latch", p.Pos(cb.Pos()), "the callback could not be evaluated for every combination of (error recorded, symbol public)")
	} else {
		c.Check(good, "C20.VALIDATOR", "boltz.publicSymbolValidator.VisitSymbol: latch", p.Pos(cb.Pos()),
			"records an error exactly when IsPublicSymbol(symbol) is false, keeping the first error", "the validator does not record an error under !IsPublicSymbol(symbol) && err == nil")
	}
	// (3) the driver: the walk happens before every return, and the result is the variable the callback writes
	okDrv, why := true, ""
	ri := reachWithout(drv, func(in ssa.Instruction) bool { return in == ssa.Instruction(vsh.accept) })
	for _, r := range returnsOf(drv) {
		if ri.Reaches(r) {
			okDrv, why = false, "a return is reachable without traversing the query"
		}
		ld, isLd := r.Results[0].(*ssa.UnOp)
		if !isLd || ld.Op != token.MUL || ld.X != ssa.Value(vsh.cell) {
			okDrv, why = false, "the result is not the validator's latched error"
		}
	}
	c.Check(okDrv, "C20.VALIDATOR", "boltz.ValidateSymbolsArePublic", p.Pos(drv.Pos()), "traverses the query with the validator and returns its latched error", why)
	ruleC20IsPublicSymbol(c)
	c.Floor("C20.VALIDATOR", 5)
}

// noPathAvoiding reports whether there is NO path from the entry to a return that avoids every
// instruction matching `avoid` and every edge matching `allowed`.
func noPathAvoiding(fn *ssa.Function, avoid func(ssa.Instruction) bool, allowed func(from, to *ssa.BasicBlock) bool) bool {
	ps := &pathSearch{fn: fn, start: fn.Blocks[0], stop: avoid, skipEdge: allowed}
	ps.atReturn = func(r *ssa.Return, k knowMap) bool { return true }
	return !ps.run()
}

// baseIsRecv: base is the receiver itself or an embedded struct of it.
func baseIsRecv(base, recv ssa.Value, depth int) bool {
	if base == recv {
		return true
	}
	if depth > 3 || base == nil {
		return false
	}
	switch x := base.(type) {
	case *ssa.FieldAddr:
		if f, b := fieldOfAddr(x); f != nil && f.Embedded() {
			return baseIsRecv(b, recv, depth+1)
		}
	case *ssa.UnOp:
		if f, b := loadedField(x); f != nil && f.Embedded() {
			return baseIsRecv(b, recv, depth+1)
		}
	}
	return false
}

// isFirstSegmentOf: v is the part of name before its first dot (strings.Split/SplitN(name, ".")[0],
// the first result of strings.Cut(name, "."), or name[:strings.Index(name, ".")]).
func isFirstSegmentOf(v ssa.Value, name ssa.Value) bool {
	// a join (e.g. the result of a small helper that was expanded): every alternative that is not the
	// empty string must be the first segment
	if _, isPhi := v.(*ssa.Phi); isPhi {
		n := 0
		for _, leaf := range phiLeaves(v) {
			if s, isK := constString(leaf); isK && s == "" {
				continue
			}
			n++
			if !isFirstSegmentOf(leaf, name) {
				return false
			}
		}
		return n > 0
	}
	isDotSplit := func(call *ssa.Call, fns ...string) bool {
		cal, _ := calleeOf(call.Common())
		if cal == nil || cal.Pkg() == nil || cal.Pkg().Path() != "strings" || len(call.Call.Args) < 2 || call.Call.Args[0] != name {
			return false
		}
		okName := false
		for _, f := range fns {
			if cal.Name() == f {
				okName = true
			}
		}
		k, isK := call.Call.Args[1].(*ssa.Const)
		return okName && isK && k.Value != nil && (k.Value.ExactString() == `"."` || k.Value.ExactString() == "46")
	}
	switch x := v.(type) {
	case *ssa.UnOp:
		if ia, ok := x.X.(*ssa.IndexAddr); ok && x.Op == token.MUL {
			k, isK := ia.Index.(*ssa.Const)
			if call, isCall := ia.X.(*ssa.Call); isCall && isK && k.Value != nil && k.Value.ExactString() == "0" {
				return isDotSplit(call, "Split", "SplitN")
			}
		}
	case *ssa.Extract:
		if call, ok := x.Tuple.(*ssa.Call); ok && x.Index == 0 {
			return isDotSplit(call, "Cut")
		}
	case *ssa.Slice:
		if x.X == name && x.Low == nil {
			if call, ok := x.High.(*ssa.Call); ok {
				return isDotSplit(call, "Index", "IndexByte", "IndexRune")
			}
		}
	}
	return false
}

// childViaLocalCollection: v is an element read from a local array/slice literal one of whose slots was
// filled with the receiver's field fld (children gathered into []Node{...} and visited in a loop).
func childViaLocalCollection(v ssa.Value, recv ssa.Value, fld *types.Var) bool {
	var arr *ssa.Alloc
	switch e := v.(type) {
	case *ssa.Index:
		// an element of a copy of a local array (range over an array value)
		if ld, ok := e.X.(*ssa.UnOp); ok {
			arr, _ = ld.X.(*ssa.Alloc)
		}
	case *ssa.UnOp:
		ia, ok := e.X.(*ssa.IndexAddr)
		if !ok {
			return false
		}
		// the collection: a local array, or a slice of one
		switch x := ia.X.(type) {
		case *ssa.Alloc:
			arr = x
		case *ssa.Slice:
			arr, _ = x.X.(*ssa.Alloc)
		}
	}
	if arr == nil {
		return false
	}
	if _, isArr := derefType(arr.Type()).Underlying().(*types.Array); !isArr {
		return false
	}
	for _, r := range *arr.Referrers() {
		slot, isIA := r.(*ssa.IndexAddr)
		if !isIA {
			continue
		}
		if _, constIdx := slot.Index.(*ssa.Const); !constIdx {
			continue
		}
		for _, sr := range *slot.Referrers() {
			if st, isSt := sr.(*ssa.Store); isSt && st.Addr == ssa.Value(slot) && derivesFromRecvField(st.Val, recv, fld, 0) {
				return true
			}
		}
	}
	return false
}

// ruleC20ValidatorFlag: the validator keeps (offending name, found) instead of a ready-made error; the driver
// makes the error afterwards.  Decided like the other shapes: VisitSymbol is run for (already found?) x (symbol
// public?) and what it leaves in the two fields is compared with the latch's contract; the driver returns the
// error made from the kept name exactly when the flag is set.
func ruleC20ValidatorFlag(c *Ctx, vsh *validatorShape, fn *ssa.Function) {
	p := c.P
	c.Analysed(FnName(fn))
	c.Analysed(FnName(vsh.drv))
	st, _ := derefType(fn.Params[0].Type()).Underlying().(*types.Struct)
	flagIdx, nameIdx := -1, -1
	for i := 0; st != nil && i < st.NumFields(); i++ {
		if sameVar(st.Field(i), vsh.flagFld) {
			flagIdx = i
		}
		if sameVar(st.Field(i), vsh.nameFld) {
			nameIdx = i
		}
	}
	sym := ssa.Value(fn.Params[1])
	isPublicTest := func(call *ssa.Call) bool {
		args := call.Call.Args
		return invokeNamed(call, "IsPublicSymbol") && len(args) > 0 && args[len(args)-1] == sym
	}
	decidedAll, good := flagIdx >= 0 && nameIdx >= 0, true
	for _, latched := range []bool{false, true} {
		for _, public := range []bool{false, true} {
			asked := 0
			oracle := func(v ssa.Value) (AV, bool) {
				if v == ssa.Value(fn.Params[0]) {
					return AV{Kind: "nonnil", Sym: "alloc:recv"}, true
				}
				if v == sym {
					return AV{Kind: "sym", Sym: "symbol"}, true
				}
				if call, isCall := v.(*ssa.Call); isCall && isPublicTest(call) {
					asked++
					return avBool(public), true
				}
				if u, isU := v.(*ssa.UnOp); isU && u.Op == token.MUL {
					if ff, base := loadedField(u); base == ssa.Value(fn.Params[0]) {
						if sameVar(ff, vsh.flagFld) {
							return avBool(latched), true
						}
						if sameVar(ff, vsh.nameFld) {
							return AV{Kind: "sym", Sym: "oldname"}, true
						}
					}
				}
				return AV{}, false
			}
			_, mem, derr := DecideMem(fn, oracle)
			if derr != "" {
				decidedAll = false
				continue
			}
			flag, wroteFlag := mem[fmt.Sprintf("arecv.f%d", flagIdx)]
			name, wroteName := mem[fmt.Sprintf("arecv.f%d", nameIdx)]
			isTrue := func(a AV) bool { return a.Kind == "const" && a.C.Kind() == constant.Bool && constant.BoolVal(a.C) }
			switch {
			case latched:
				if (wroteFlag && !isTrue(flag)) || (wroteName && name.Sym != "oldname") {
					good = false // the first offender is replaced, or the flag cleared
				}
			case public:
				if wroteFlag && isTrue(flag) {
					good = false
				}
			default:
				if !wroteFlag || !isTrue(flag) || !wroteName || name.Sym != "symbol" || asked == 0 {
					good = false
				}
			}
		}
	}
	if !decidedAll {
		c.Undecided("C20.VALIDATOR", "boltz.publicSymbolValidator.VisitSymbol: latch", p.Pos(fn.Pos()), "VisitSymbol could not be evaluated for every combination of (offender recorded, symbol public)")
	} else {
		c.Check(good, "C20.VALIDATOR", "boltz.publicSymbolValidator.VisitSymbol: latch", p.Pos(fn.Pos()),
			"records an error exactly when IsPublicSymbol(symbol) is false, keeping the first error", "the validator does not record an error under !IsPublicSymbol(symbol) && err == nil")
	}
	// every path tests the symbol unless an offender is already recorded
	fi := factsOf(fn)
	early := !noPathAvoiding(fn, func(in ssa.Instruction) bool {
		call, ok := in.(*ssa.Call)
		return ok && isPublicTest(call)
	}, func(from, to *ssa.BasicBlock) bool {
		for ft := range fi.edgeFacts(from, to) {
			if ft.Kind == "true" && ft.Pol {
				if ff, _ := loadedField(ft.V); sameVar(ff, vsh.flagFld) {
					return true
				}
			}
		}
		return false
	})
	c.Check(!early, "C20.VALIDATOR", "boltz.publicSymbolValidator.VisitSymbol: always tests", p.Pos(fn.Pos()), "every path tests IsPublicSymbol unless an error is already latched", "a path returns without testing the symbol although no error is latched")
	// driver: walk first; nil exactly when the flag is clear
	drv := vsh.drv
	dfi := factsOf(drv)
	okDrv, why := true, ""
	ri := reachWithout(drv, func(in ssa.Instruction) bool { return in == ssa.Instruction(vsh.accept) })
	for _, r := range returnsOf(drv) {
		if ri.Reaches(r) {
			okDrv, why = false, "a return is reachable without traversing the query"
		}
		flagSet := dfi.HoldsWhere(r.Block(), func(f Fact) bool {
			g, base := loadedField(f.V)
			return f.Kind == "true" && f.Pol && sameVar(g, vsh.flagFld) && base == vsh.obj
		})
		flagClear := dfi.HoldsWhere(r.Block(), func(f Fact) bool {
			g, base := loadedField(f.V)
			return f.Kind == "true" && !f.Pol && sameVar(g, vsh.flagFld) && base == vsh.obj
		})
		switch {
		case isNilConst(r.Results[0]):
			if !flagClear {
				okDrv, why = false, "the driver can report success although the validator recorded an offender"
			}
		default:
			if !flagSet {
				okDrv, why = false, "the result is not the validator's latched error"
			}
		}
	}
	c.Check(okDrv, "C20.VALIDATOR", "boltz.ValidateSymbolsArePublic", p.Pos(drv.Pos()), "traverses the query with the validator and returns its latched error", why)
	ruleC20IsPublicSymbol(c)
	c.Floor("C20.VALIDATOR", 5)
}

// onlyFieldAddrUsers: the address of an embedded part is used only to address fields inside it.
func onlyFieldAddrUsers(fa *ssa.FieldAddr) bool {
	refs := fa.Referrers()
	if refs == nil || len(*refs) == 0 {
		return false
	}
	for _, r := range *refs {
		if _, ok := r.(*ssa.FieldAddr); !ok {
			if _, dbg := r.(*ssa.DebugRef); dbg {
				continue
			}
			return false
		}
	}
	return true
}
