package main

import (
	"fmt"
	"go/ast"
	"go/parser"
	"go/token"
	"go/types"
	"os"
	"path/filepath"
	"sort"
	"strings"

	"golang.org/x/tools/go/packages"
	"golang.org/x/tools/go/ssa"
	"golang.org/x/tools/go/ssa/ssautil"
)

const modPath = "github.com/openziti/storage"

// Prog is the loaded, type-checked program plus its SSA form.
type Prog struct {
	Root    string
	Fset    *token.FileSet
	Pkgs    map[string]*packages.Package // by short name (ast, boltz, objectz, zitiql, boltztest)
	All     []*packages.Package          // the module's packages
	SSA     *ssa.Program
	SSAPkgs map[string]*ssa.Package
	Decls   map[*types.Func]*ast.FuncDecl
	Whole   bool // dependencies loaded with syntax (thorough)
	GoArch  string

	// ControlsDropped: the seeded control files did not type-check against this tree and were left out
	ControlsDropped bool
	// Forwarded: operand uses rewritten by the store-to-load forwarding through private local structs
	Forwarded int

	Norm    *normStats    // what the normalisation did (nil if switched off)
	Renames *renameResult // declarations renamed back to their pinned names
	// RenamedAnchors: field anchors that no longer resolve by name and were recognised by type
	RenamedAnchors []string

	ext map[string]*types.Package // every package reachable through imports, by path
}

type anchorLost struct{ what string }

func (a anchorLost) Error() string { return "anchor lost: " + a.what }

// LoadOpts control how /repo is loaded.
type LoadOpts struct {
	Root    string
	Whole   bool              // LoadAllSyntax
	GoArch  string            // "" = host
	Overlay map[string][]byte // extra in-memory files (positive controls)
	Tags    string
	NoNorm  bool // analyse the program as written (no helper expansion); debugging only
}

func Load(o LoadOpts) (*Prog, error) {
	mode := packages.LoadSyntax
	if o.Whole {
		mode = packages.LoadAllSyntax
	}
	env := append(os.Environ(), "GOFLAGS=-mod=mod", "GOPROXY=off", "GOSUMDB=off", "GOWORK=off", "GOTOOLCHAIN=local")
	if o.GoArch != "" {
		env = append(env, "GOARCH="+o.GoArch, "CGO_ENABLED=0")
	}
	cfg := &packages.Config{
		Mode:  mode | packages.NeedModule,
		Dir:   o.Root,
		Env:   env,
		Tests: false,
	}
	if o.Tags != "" {
		cfg.BuildFlags = []string{"-tags=" + o.Tags}
	}
	pkgs, err := packages.Load(cfg, "./...")
	if err != nil {
		return nil, fmt.Errorf("packages.Load: %w", err)
	}
	var errs []string
	packages.Visit(pkgs, nil, func(p *packages.Package) {
		for _, e := range p.Errors {
			errs = append(errs, fmt.Sprintf("%s: %s", p.PkgPath, e.Error()))
		}
	})
	if len(errs) > 0 {
		sort.Strings(errs)
		if len(errs) > 20 {
			errs = errs[:20]
		}
		return nil, fmt.Errorf("load/type errors:\n  %s", strings.Join(errs, "\n  "))
	}
	p := &Prog{
		Root:    o.Root,
		Pkgs:    map[string]*packages.Package{},
		SSAPkgs: map[string]*ssa.Package{},
		Decls:   map[*types.Func]*ast.FuncDecl{},
		Whole:   o.Whole,
		GoArch:  o.GoArch,
		ext:     map[string]*types.Package{},
	}
	for _, pk := range pkgs {
		if !strings.HasPrefix(pk.PkgPath, modPath) {
			continue
		}
		short := strings.TrimPrefix(strings.TrimPrefix(pk.PkgPath, modPath), "/")
		if short == "" {
			short = "."
		}
		p.Pkgs[short] = pk
		p.All = append(p.All, pk)
		p.Fset = pk.Fset
	}
	if len(p.All) < 5 {
		return nil, fmt.Errorf("expected >=5 packages of %s under %s, got %d", modPath, o.Root, len(p.All))
	}
	for _, need := range []string{"ast", "boltz", "objectz", "zitiql", "boltztest"} {
		if p.Pkgs[need] == nil {
			return nil, fmt.Errorf("package %s/%s not loaded", modPath, need)
		}
		if len(p.Pkgs[need].Syntax) == 0 {
			return nil, fmt.Errorf("package %s has no syntax", need)
		}
	}
	// positive controls are parsed here and joined to their package's syntax trees (they are written
	// against the pinned names, so they are added only once renames have been undone)
	var controlFiles []*ast.File
	controlPkg := map[*ast.File]*packages.Package{}
	var ovPaths []string
	for path := range o.Overlay {
		ovPaths = append(ovPaths, path)
	}
	sort.Strings(ovPaths)
	for _, path := range ovPaths {
		f, err := parser.ParseFile(p.Fset, path, o.Overlay[path], parser.SkipObjectResolution)
		if err != nil {
			return nil, fmt.Errorf("control file %s: %w", path, err)
		}
		var owner *packages.Package
		for _, pk := range p.All {
			if len(pk.GoFiles) > 0 && filepath.Dir(pk.GoFiles[0]) == filepath.Dir(path) {
				owner = pk
			}
		}
		if owner == nil {
			return nil, fmt.Errorf("control file %s: no package in that directory", path)
		}
		controlFiles = append(controlFiles, f)
		controlPkg[f] = owner
	}
	var addedControls []*ast.File
	addControls := func() {
		for _, f := range controlFiles {
			controlPkg[f].Syntax = append(controlPkg[f].Syntax, f)
			addedControls = append(addedControls, f)
		}
		controlFiles = nil
	}
	// dropControls: the seeded controls no longer compile against this tree (they use declarations that
	// were restructured): analyse without them; the floors still guard against blind rules
	dropControls := func() {
		for _, f := range addedControls {
			pk := controlPkg[f]
			var keep []*ast.File
			for _, g := range pk.Syntax {
				if g != f {
					keep = append(keep, g)
				}
			}
			pk.Syntax = keep
		}
		addedControls = nil
		p.ControlsDropped = true
	}
	if o.NoNorm {
		addControls()
		if len(o.Overlay) > 0 {
			if err := retypecheckPackages(p.All, p.Fset, p.isGenerated); err != nil {
				dropControls()
				if err := retypecheckPackages(p.All, p.Fset, p.isGenerated); err != nil {
					return nil, err
				}
			}
		}
	}
	if !o.NoNorm {
		// renamed unexported declarations get their pinned names back first (renames.go)
		pinned := loadPinnedDecls()
		p.Renames = &renameResult{}
		for short, pk := range p.Pkgs {
			undoRenames(short, pk, pinned[short], p.isGenerated, p.Renames)
		}
		hadControls := len(controlFiles) > 0
		addControls()
		if len(p.Renames.Applied) > 0 || hadControls {
			err := retypecheckPackages(p.All, p.Fset, p.isGenerated)
			if err != nil && len(p.Renames.Applied) > 0 {
				// the guessed renames are inconsistent: analyse the tree as written instead
				p.Renames.Revert()
				err = retypecheckPackages(p.All, p.Fset, p.isGenerated)
			}
			if err != nil && hadControls {
				dropControls()
				err = retypecheckPackages(p.All, p.Fset, p.isGenerated)
			}
			if err != nil {
				return nil, err
			}
		}
		st, err := normalizePackages(p.All, p.Fset, p.isGenerated)
		p.Norm = st
		if err != nil {
			return nil, fmt.Errorf("normalisation: %w", err)
		}
	}
	packages.Visit(pkgs, nil, func(pk *packages.Package) {
		if pk.Types != nil {
			p.ext[pk.PkgPath] = pk.Types
		}
	})
	// SSA
	var prog *ssa.Program
	var spkgs []*ssa.Package
	if o.Whole {
		prog, spkgs = ssautil.AllPackages(pkgs, ssa.BuilderMode(0))
	} else {
		prog, spkgs = ssautil.Packages(pkgs, ssa.BuilderMode(0))
	}
	prog.Build()
	if os.Getenv("STORAGECHECK_NOFORWARD") == "" {
		p.Forwarded = forwardPrivateStructsAll(prog)
	}
	p.SSA = prog
	for i, pk := range pkgs {
		if spkgs[i] == nil {
			continue
		}
		if strings.HasPrefix(pk.PkgPath, modPath) {
			short := strings.TrimPrefix(strings.TrimPrefix(pk.PkgPath, modPath), "/")
			p.SSAPkgs[short] = spkgs[i]
		}
	}
	for _, pk := range p.All {
		for _, f := range pk.Syntax {
			for _, d := range f.Decls {
				if fd, ok := d.(*ast.FuncDecl); ok {
					if obj, ok := pk.TypesInfo.Defs[fd.Name].(*types.Func); ok {
						p.Decls[obj] = fd
					}
				}
			}
		}
	}
	// ... and the bodies of generic functions and methods, which the walk over the program's function set
	// above does not reach while they are not instantiated
	if os.Getenv("STORAGECHECK_NOFORWARD") == "" {
		var shorts []string
		for short := range p.SSAPkgs {
			shorts = append(shorts, short)
		}
		sort.Strings(shorts)
		for _, fn := range p.SrcFuncs(shorts...) {
			p.Forwarded += devirtualiseThunkCalls(fn)
			for i := 0; i < 6; i++ {
				k := forwardPrivateStructs(fn)
				p.Forwarded += k
				if k == 0 {
					break
				}
			}
		}
	}
	curProg = p
	return p, nil
}

// ---- anchors -------------------------------------------------------------

func (p *Prog) pkg(short string) *packages.Package {
	pk := p.Pkgs[short]
	if pk == nil {
		panic(anchorLost{"package " + short})
	}
	return pk
}

// Obj looks up a package-level object.
func (p *Prog) Obj(pkg, name string) types.Object {
	o := p.pkg(pkg).Types.Scope().Lookup(name)
	if o == nil {
		panic(anchorLost{pkg + "." + name})
	}
	return o
}

func (p *Prog) Func(pkg, name string) *types.Func {
	f, ok := p.Obj(pkg, name).(*types.Func)
	if !ok {
		panic(anchorLost{pkg + "." + name + " (not a func)"})
	}
	return f
}

func (p *Prog) Named(pkg, name string) *types.Named {
	tn, ok := p.Obj(pkg, name).(*types.TypeName)
	if !ok {
		panic(anchorLost{pkg + "." + name + " (not a type)"})
	}
	n, ok := tn.Type().(*types.Named)
	if !ok {
		panic(anchorLost{pkg + "." + name + " (not a named type)"})
	}
	return n
}

func (p *Prog) Iface(pkg, name string) *types.Interface {
	n := p.Named(pkg, name)
	i, ok := n.Underlying().(*types.Interface)
	if !ok {
		panic(anchorLost{pkg + "." + name + " (not an interface)"})
	}
	return i
}

// Method finds a declared method (pointer or value receiver) of a named type.
func (p *Prog) Method(pkg, typ, name string) *types.Func {
	n := p.Named(pkg, typ)
	for i := 0; i < n.NumMethods(); i++ {
		if m := n.Method(i); m.Name() == name {
			return m
		}
	}
	if it, ok := n.Underlying().(*types.Interface); ok {
		for i := 0; i < it.NumMethods(); i++ {
			if m := it.Method(i); m.Name() == name {
				return m
			}
		}
	}
	// an unexported helper folded into the exported method of the same name (setLinkCount -> SetLinkCount)
	if !token.IsExported(name) && name != "" {
		exp := strings.ToUpper(name[:1]) + name[1:]
		for i := 0; i < n.NumMethods(); i++ {
			if m := n.Method(i); m.Name() == exp {
				p.RenamedAnchors = append(p.RenamedAnchors, pkg+"."+typ+"."+name+" -> "+exp+" (helper folded into the exported method)")
				return m
			}
		}
	}
	// renamed (and perhaps given another signature)? an unexported helper is also recognised by its place:
	// the one unexported method of the type that each of the listed exported methods calls
	if callers, has := methodAnchorRoles[pkg+"."+typ+"."+name]; has && p.SSA != nil {
		var common map[*types.Func]bool
		for _, cn := range callers {
			var cm *types.Func
			for i := 0; i < n.NumMethods(); i++ {
				if m := n.Method(i); m.Name() == cn {
					cm = m
				}
			}
			if cm == nil {
				common = nil
				break
			}
			sf := p.SSA.FuncValue(cm)
			if sf == nil {
				common = nil
				break
			}
			here := map[*types.Func]bool{}
			for _, call := range callsIn(sf) {
				if sc := call.Common().StaticCallee(); sc != nil && sc.Signature.Recv() != nil && namedOf(sc.Signature.Recv().Type()) == n {
					if f, isF := sc.Object().(*types.Func); isF && !token.IsExported(f.Name()) {
						here[f] = true
					}
				}
			}
			if common == nil {
				common = here
			} else {
				for f := range common {
					if !here[f] {
						delete(common, f)
					}
				}
			}
		}
		if len(common) == 1 {
			for f := range common {
				p.RenamedAnchors = append(p.RenamedAnchors, pkg+"."+typ+"."+name+" -> "+f.Name()+" (the helper shared by "+strings.Join(callers, ", ")+")")
				return f
			}
		}
	}
	panic(anchorLost{pkg + "." + typ + "." + name})
}

// methodAnchorRoles: unexported helper methods the rules are anchored on, with the exported methods that share
// them (the place they are recognised by once their name is gone).
var methodAnchorRoles = map[string][]string{
	"boltz.TypedBucket.setMarshaled": {"PutMap", "PutList"},
}

// MethodOpt is Method without the panic.
func (p *Prog) MethodOpt(pkg, typ, name string) *types.Func {
	defer func() { _ = recover() }()
	return p.Method(pkg, typ, name)
}

func (p *Prog) Field(pkg, typ, name string) *types.Var {
	n := p.Named(pkg, typ)
	st, ok := n.Underlying().(*types.Struct)
	if !ok {
		panic(anchorLost{pkg + "." + typ + " (not a struct)"})
	}
	key := pkg + "." + typ + "." + name
	qual := func(q *types.Package) string { return q.Name() }
	for i := 0; i < st.NumFields(); i++ {
		if st.Field(i).Name() == name {
			fieldAnchorsUsed[key] = types.TypeString(st.Field(i).Type(), qual)
			return st.Field(i)
		}
	}
	// moved into an embedded part of the struct (mutateContext.commitActions -> mutateContext.deferredActions.
	// commitActions)? a promoted field of that name is the same field to the rules
	{
		var hits []*types.Var
		var walk func(s *types.Struct, depth int)
		walk = func(s *types.Struct, depth int) {
			for i := 0; i < s.NumFields(); i++ {
				f := s.Field(i)
				if !f.Embedded() || depth > 2 {
					continue
				}
				et := f.Type()
				if pt, isP := et.Underlying().(*types.Pointer); isP {
					et = pt.Elem()
				}
				if es, isSt := et.Underlying().(*types.Struct); isSt {
					for j := 0; j < es.NumFields(); j++ {
						if es.Field(j).Name() == name {
							hits = append(hits, es.Field(j))
						}
					}
					walk(es, depth+1)
				}
			}
		}
		walk(st, 0)
		if len(hits) == 1 {
			p.RenamedAnchors = append(p.RenamedAnchors, key+" -> promoted field of an embedded struct")
			return hits[0]
		}
	}
	// renamed? an unexported field is also recognised by its type, when that type (as recorded on the
	// pinned tree) is borne by exactly one field of the struct
	if want, has := fieldAnchorTypes[key]; has && !token.IsExported(name) {
		var hit *types.Var
		cnt := 0
		var scan func(s *types.Struct, depth int)
		scan = func(s *types.Struct, depth int) {
			for i := 0; i < s.NumFields(); i++ {
				f := s.Field(i)
				if types.TypeString(f.Type(), qual) == want {
					hit = f
					cnt++
				}
				// ... also among the fields of embedded parts (the field moved there and was renamed on the way)
				if f.Embedded() && depth < 2 {
					et := f.Type()
					if pt, isP := et.Underlying().(*types.Pointer); isP {
						et = pt.Elem()
					}
					if es, isSt := et.Underlying().(*types.Struct); isSt {
						if nm, isNamed := types.Unalias(et).(*types.Named); isNamed && nm.Obj().Pkg() == n.Obj().Pkg() {
							scan(es, depth+1)
						}
					}
				}
			}
		}
		scan(st, 0)
		if cnt == 1 {
			p.RenamedAnchors = append(p.RenamedAnchors, key+" -> "+hit.Name())
			return hit
		}
	}
	panic(anchorLost{pkg + "." + typ + "." + name + " (field)"})
}

// fieldAnchorsUsed records, per run, every field anchor resolved by name with its type (dev tool
// -dump-field-anchors regenerates anchors_fields.go from it).
var fieldAnchorsUsed = map[string]string{}

// ExtPkg returns a dependency's types.Package.
func (p *Prog) ExtPkg(path string) *types.Package {
	tp := p.ext[path]
	if tp == nil {
		panic(anchorLost{"package " + path})
	}
	return tp
}

func (p *Prog) ExtNamed(path, name string) *types.Named {
	o := p.ExtPkg(path).Scope().Lookup(name)
	if o == nil {
		panic(anchorLost{path + "." + name})
	}
	n, ok := o.Type().(*types.Named)
	if !ok {
		panic(anchorLost{path + "." + name + " (not named)"})
	}
	return n
}

func (p *Prog) ExtFunc(path, name string) *types.Func {
	o := p.ExtPkg(path).Scope().Lookup(name)
	f, ok := o.(*types.Func)
	if !ok {
		panic(anchorLost{path + "." + name})
	}
	return f
}

func (p *Prog) ExtMethod(path, typ, name string) *types.Func {
	n := p.ExtNamed(path, typ)
	for i := 0; i < n.NumMethods(); i++ {
		if m := n.Method(i); m.Name() == name {
			return m
		}
	}
	if it, ok := n.Underlying().(*types.Interface); ok {
		for i := 0; i < it.NumMethods(); i++ {
			if m := it.Method(i); m.Name() == name {
				return m
			}
		}
	}
	panic(anchorLost{path + "." + typ + "." + name})
}

// SSAFunc returns the SSA function for a declared function/method.
func (p *Prog) SSAFunc(f *types.Func) *ssa.Function {
	fn := p.SSA.FuncValue(f)
	if fn == nil {
		panic(anchorLost{"ssa function for " + f.FullName()})
	}
	return fn
}

// SrcFuncs lists all source-level SSA functions (incl. anonymous) of the given packages,
// sorted by position.
func (p *Prog) SrcFuncs(pkgs ...string) []*ssa.Function {
	var out []*ssa.Function
	seen := map[*ssa.Function]bool{}
	var add func(fn *ssa.Function)
	add = func(fn *ssa.Function) {
		if fn == nil || seen[fn] || fn.Blocks == nil {
			return
		}
		if p.Norm != nil {
			if f, ok := fn.Object().(*types.Func); ok && p.Norm.Dead[f.Origin().FullName()] {
				return // every call of this helper was expanded in place; the definition itself is dead
			}
		}
		seen[fn] = true
		out = append(out, fn)
		for _, a := range fn.AnonFuncs {
			add(a)
		}
	}
	for _, short := range pkgs {
		sp := p.SSAPkgs[short]
		if sp == nil {
			panic(anchorLost{"ssa package " + short})
		}
		for _, m := range sp.Members {
			switch m := m.(type) {
			case *ssa.Function:
				add(m)
			case *ssa.Type:
				for _, t := range []types.Type{m.Type(), types.NewPointer(m.Type())} {
					ms := p.SSA.MethodSets.MethodSet(t)
					for i := 0; i < ms.Len(); i++ {
						sel := ms.At(i)
						if f, ok := sel.Obj().(*types.Func); ok && f.Pkg() == sp.Pkg {
							if _, declared := p.Decls[f]; declared {
								add(p.SSA.FuncValue(f))
							}
						}
					}
				}
			}
		}
	}
	// generic types' methods are not in method sets of the uninstantiated type: add from Decls
	for f := range p.Decls {
		for _, short := range pkgs {
			if f.Pkg() == p.Pkgs[short].Types {
				add(p.SSA.FuncValue(f))
			}
		}
	}
	sort.Slice(out, func(i, j int) bool {
		pi, pj := p.Fset.Position(out[i].Pos()), p.Fset.Position(out[j].Pos())
		if pi.Filename != pj.Filename {
			return pi.Filename < pj.Filename
		}
		if pi.Line != pj.Line {
			return pi.Line < pj.Line
		}
		return pi.Column < pj.Column
	})
	return out
}

func (p *Prog) isGenerated(pos token.Pos) bool {
	f := p.Fset.Position(pos).Filename
	base := filepath.Base(f)
	return base == "zitiql_parser.go" || base == "zitiql_lexer.go" || base == "zitiql_base_listener.go" || base == "zitiql_listener.go"
}

func (p *Prog) isTestSupport(pos token.Pos) bool {
	f := p.Fset.Position(pos).Filename
	return strings.Contains(f, "/boltztest/") || filepath.Base(f) == "test_events.go"
}

// Pos renders a position relative to the repo root.
func (p *Prog) Pos(pos token.Pos) string {
	if !pos.IsValid() {
		return "-"
	}
	ps := p.Fset.Position(pos)
	rel, err := filepath.Rel(p.Root, ps.Filename)
	if err != nil {
		rel = ps.Filename
	}
	return fmt.Sprintf("%s:%d:%d", rel, ps.Line, ps.Column)
}

// FnName gives a stable, line-free name for an SSA function.
func FnName(fn *ssa.Function) string {
	if fn == nil {
		return "<nil>"
	}
	if fn.Parent() != nil {
		// anonymous: parent name + index
		par := fn.Parent()
		idx := 0
		for i, a := range par.AnonFuncs {
			if a == fn {
				idx = i + 1
			}
		}
		return fmt.Sprintf("%s$%d", FnName(par), idx)
	}
	s := fn.RelString(nil)
	s = strings.ReplaceAll(s, modPath+"/", "")
	return s
}

func shortObj(o types.Object) string {
	if f, ok := o.(*types.Func); ok {
		s := f.FullName()
		return strings.ReplaceAll(s, modPath+"/", "")
	}
	if o.Pkg() != nil {
		return strings.TrimPrefix(o.Pkg().Path(), modPath+"/") + "." + o.Name()
	}
	return o.Name()
}

func (p *Prog) sizeofBasic(b *types.Basic) int64 {
	switch b.Kind() {
	case types.Int8, types.Uint8, types.Bool:
		return 1
	case types.Int16, types.Uint16:
		return 2
	case types.Int32, types.Uint32, types.Float32:
		return 4
	case types.Int64, types.Uint64, types.Float64:
		return 8
	}
	return -1 // int/uint/uintptr: platform dependent, never "the same width"
}
