#!/bin/bash
# store a confirmed seeded change under /verif/seeded/<ID>-<N>/ (patch.diff, demo, meta.json + what was run)
id=$1; n=$2
sfx=${SEEDSFX:-}; src=${SEEDOUT:-/tmp/seed/out}; d=/verif/seeded/$id-$n$sfx; mkdir -p $d
cp $src/$id/patch$n.diff $d/patch.diff
cp $src/$id/demo${n}_test.go $d/demo_test.go.txt
conf=$(/verif/tools/seed_confirm.sh $id $n 2>&1)
jq --arg conf "$conf" --arg prop "$id" '. + {breaks_property:$prop, confirmed_by_me: $conf, confirmation_cmd: ("tools/seed_confirm.sh "+$prop)}' $src/$id/meta$n.json > $d/meta.json 2>/dev/null || { cp $src/$id/meta$n.json $d/meta.json; echo "$conf" > $d/confirmed.txt; }
echo "$conf" | head -5
