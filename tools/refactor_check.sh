#!/bin/bash
# Development-time false-alarm test: apply a behaviour-preserving change produced by an independent
# agent (/tmp/seed/out3/<ID>/refactorN.diff, or any diff given as $1) to /repo, run ALL quick checks,
# revert.  Every check must stay silent: any VIOLATED/UNDECIDED line here is a false alarm of the checker.
set -u
patch=$1
cd /repo || exit 2
[ -z "$(git status --porcelain)" ] || { echo "repo dirty"; exit 2; }
git apply "$patch" || { echo "PATCH-NO-APPLY $patch"; git reset -q --hard HEAD; exit 2; }
mkdir -p /tmp/rf_verif && cp /verif/known_findings.json /verif/properties.jsonl /tmp/rf_verif/
bad=0
for i in 01 02 03 04 05 06 07 08 09 10 11 12 13 14 15 16 17 18 19 20; do
  o=$(/verif/bin/storagecheck -prop C$i -tier quick -verif /tmp/rf_verif 2>&1); rc=$?
  if [ $rc -ne 0 ]; then bad=1; echo "FALSE-ALARM? $patch C$i rc=$rc"; echo "$o" | grep -E -A2 '^(VIOLATED|UNDECIDED)' | cut -c1-400 | head -24; fi
done
git reset -q --hard HEAD; git clean -fdq; rm -rf /tmp/rf_verif
[ $bad -eq 0 ] && echo "SILENT $patch"
exit $bad
