#!/bin/bash
# Development-time: confirm a seeded change (clean+demo passes, modified+demo fails, modified+suite
# passes) in the scratch worktree /tmp/seed/<ID>, then run the property's quick check against /repo
# with the patch applied (and revert). usage: seed_confirm.sh <ID> <N> [extra props to run]
set -u
id=$1; n=$2; shift 2
export GOFLAGS=-mod=mod GOPROXY=off GOSUMDB=off GOTOOLCHAIN=local
wt=/tmp/seed/$id; out=${SEEDOUT:-/tmp/seed/out}/$id
patch=$out/patch$n.diff; demo=$out/demo${n}_test.go; meta=$out/meta$n.json
[ -f "$patch" ] && [ -f "$demo" ] || { echo "missing deliverables for $id/$n"; exit 2; }
pkgdir=$(jq -r .demo_package_dir "$meta" 2>/dev/null | sed 's#^\./##; s#/$##')
[ -z "$pkgdir" ] || [ "$pkgdir" = null ] && pkgdir=$(head -3 "$demo" | grep -oE '(boltz|ast|objectz|zitiql)' | head -1)
pkgdir=$(basename "$pkgdir")
cd $wt && git reset -q --hard HEAD && git clean -fdq
cp "$demo" $wt/$pkgdir/zz_seed_demo_test.go
tname=$(grep -oE 'func (Test[A-Za-z0-9_]+)' $wt/$pkgdir/zz_seed_demo_test.go | cut -d' ' -f2 | paste -sd'|')
clean=$(go test -vet=off -count=1 -race -run "^(${tname})\$" ./$pkgdir 2>&1 | tail -1)
git apply "$patch" || { echo "PATCH DOES NOT APPLY"; git reset -q --hard; git clean -fdq; exit 2; }
modified=$(timeout 300 go test -vet=off -count=1 -race -run "^(${tname})\$" ./$pkgdir 2>&1 | tail -1)
rm -f $wt/$pkgdir/zz_seed_demo_test.go
suite=$(go build ./... 2>&1 | tail -1; go test -vet=off -count=1 ./... 2>&1 | grep -v '^ok\|no test files' | tail -2)
git reset -q --hard HEAD; git clean -fdq
echo "[$id/$n] demo=$tname pkg=$pkgdir"
echo "  clean:    $clean"
echo "  modified: $modified"
echo "  suite(modified): ${suite:-all ok}"
# now the checker: against the scratch worktree with the patch applied (never /repo, so that several
# confirmations can run side by side)
cd $wt && git apply "$patch" || { echo "patch does not apply"; exit 2; }
sv=$(mktemp -d /tmp/seed_verif.XXXX); cp /verif/known_findings.json /verif/properties.jsonl $sv/
for p in $id "$@"; do
  o=$(${CHK:-/verif/bin/storagecheck} -prop $p -tier quick -repo $wt -verif $sv 2>&1); rc=$?
  echo "  check $p rc=$rc: $(echo "$o" | grep -E '^(VIOLATED|UNDECIDED)' | head -3 | cut -c1-220 | tr '\n' '|')"
done
git reset -q --hard HEAD; git clean -fdq; rm -rf $sv
