#!/bin/bash
# Development-time: rebuild, rewrite all evidence (quick tier), regenerate floors and MANIFEST, validate.
set -u
export GOFLAGS=-mod=mod GOPROXY=off GOSUMDB=off GOTOOLCHAIN=local GOWORK=off
cd /verif/checker && go vet . && go build -o /verif/bin/storagecheck . || exit 1
cd /verif
runall() { for i in $(seq -w 1 20); do (bin/storagecheck -prop C$i -tier quick > /tmp/regen_$i.txt 2>&1) & done; wait; cat /tmp/regen_*.txt | grep -E "^OK|^VIOLATION|^UNDEC" | awk '{print $1}' | sort | uniq -c; rm -f /tmp/regen_*.txt; }
runall 2>/dev/null
python3 tools/gen_floors.py && (cd checker && gofmt -w floors.go && go build -o /verif/bin/storagecheck .) || exit 1
runall 2>/dev/null
bin/storagecheck -gen-manifest > /tmp/regen_m.json && cp /tmp/regen_m.json MANIFEST.json && rm -f /tmp/regen_m.json
python3-vt validate.py | tail -1
