#!/bin/bash
# Development-time: apply a patch in a scratch worktree and run ALL quick checks; print which rules fire.
# usage: allprops.sh <patch> <worktree>
patch=$1; wt=$2
cd $wt || exit 2
git reset -q --hard HEAD; git clean -fdq
git apply "$patch" || { echo "PATCH-NO-APPLY $patch"; exit 2; }
v=$(mktemp -d /tmp/apv.XXXX); cp /verif/known_findings.json /verif/properties.jsonl $v/
for i in 01 02 03 04 05 06 07 08 09 10 11 12 13 14 15 16 17 18 19 20; do
  o=$(${CHK:-/verif/bin/storagecheck} -prop C$i -tier quick -repo $wt -verif $v 2>&1); rc=$?
  [ $rc -ne 0 ] && echo "$patch C$i: $(echo "$o" | grep -E '^(VIOLATED|UNDECIDED)' | sed -E 's/^(VIOLATED|UNDECIDED) rule=([^ ]+) construct=(.{0,80}).*/\1:\2[\3]/' | sort -u | head -4 | tr '\n' ' ')"
done
git reset -q --hard HEAD; git clean -fdq; rm -rf $v
echo "done $patch"
