#!/bin/bash
# Development-time false-alarm test, parallelisable: apply a behaviour-preserving diff in a scratch
# worktree ($2) and run ALL quick checks against that worktree (-repo). Output: SILENT or the alarms.
set -u
patch=$1; wt=$2
cd $wt || exit 2
git reset -q --hard HEAD; git clean -fdq
git apply "$patch" || { echo "PATCH-NO-APPLY $patch"; exit 2; }
v=$(mktemp -d /tmp/rfv.XXXX); cp /verif/known_findings.json /verif/properties.jsonl $v/
bad=0
for i in ${PROPS:-01 02 03 04 05 06 07 08 09 10 11 12 13 14 15 16 17 18 19 20}; do
  o=$(${CHK:-/verif/bin/storagecheck} -prop C$i -tier quick -repo $wt -verif $v 2>&1); rc=$?
  if [ $rc -ne 0 ]; then bad=1; echo "FALSE-ALARM? $patch C$i rc=$rc"; echo "$o" | grep -E -A2 '^(VIOLATED|UNDECIDED)' | cut -c1-500 | head -30; fi
done
git reset -q --hard HEAD; git clean -fdq; rm -rf $v
[ $bad -eq 0 ] && echo "SILENT $patch"
exit 0
