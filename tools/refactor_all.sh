#!/bin/bash
# run every behaviour-preserving change under /tmp/seed/out3 (or $1) against all checks, in parallel
src=${1:-/tmp/seed/out3}
mkdir -p /tmp/seed/rf_logs; rm -f /tmp/seed/rf_logs/*.log
for i in 01 02 03 04 05 06 07 08 09 10 11 12 13 14 15 16 17 18 19 20; do echo $i; done | xargs -P 10 -I{} bash -c 'for f in '$src'/C{}/refactor*.diff; do /verif/tools/refactor_check_wt.sh $f /tmp/seed/R{}; done > /tmp/seed/rf_logs/C{}.log 2>&1'
echo "silent: $(grep -h '^SILENT' /tmp/seed/rf_logs/*.log | wc -l)"
grep -h "^FALSE-ALARM\|NO-APPLY" /tmp/seed/rf_logs/*.log
