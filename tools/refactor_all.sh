#!/bin/bash
# Development-time: run every behaviour-preserving change under $1 (default /verif/refactors/r1) against
# all 20 quick checks, 10 at a time, each in its own scratch worktree /tmp/seed/X01..X10
# (create them with: git -C /repo worktree add --detach /tmp/seed/XNN HEAD).
src=${1:-/verif/refactors/r1}
logs=/tmp/seed/rf_logs; mkdir -p $logs; rm -f $logs/*.log
ls $src/*/refactor*.diff | awk '{printf "%s %02d\n", $0, (NR-1)%10+1}' > $logs/jobs.txt
for slot in 01 02 03 04 05 06 07 08 09 10; do
  ( grep " $slot\$" $logs/jobs.txt | while read f s; do /verif/tools/refactor_check_wt.sh $f /tmp/seed/X$slot; done > $logs/slot$slot.log 2>&1 ) &
done
wait
echo "silent: $(grep -h '^SILENT' $logs/*.log | wc -l) of $(wc -l < $logs/jobs.txt)"
grep -h "^FALSE-ALARM\|NO-APPLY" $logs/*.log
