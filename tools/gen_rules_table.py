#!/usr/bin/env python3
# Development-time: regenerate the rules table of DESIGN.md §25.2 from evidence/*.json.
import json, re
rows = []
for i in range(1, 21):
    pid = 'C%02d' % i
    ri = json.load(open('/verif/evidence/%s.json' % pid))['coverage']['rule_instances']
    parts = []
    for rule in sorted(ri):
        name = rule[len(pid) + 1:] if rule.startswith(pid + '.') else rule
        parts.append('%s %d' % (name, ri[rule]['matched']))
    rows.append('| %s | %s |' % (pid, ' · '.join(parts)))
table = '| prop | rules (matched real sites; generated from evidence/*.json by tools/gen_rules_table.py) |\n|---|---|\n' + '\n'.join(rows) + '\n'
s = open('/verif/DESIGN.md').read()
m = re.search(r'\| prop \| rules \(matched real sites;[^\n]*\n\|---\|---\|\n(?:\| C\d\d \|[^\n]*\n)+', s)
assert m
s = s[:m.start()] + table + s[m.end():]
open('/verif/DESIGN.md', 'w').write(s)
print('rules table regenerated:', sum(len(r.split('·')) for r in rows), 'rule instances')
