#!/bin/bash
# Development-time harness (not a registered check): applies each stored patch to /repo, runs the
# property's quick check, expects exit 1 and the named rule among the violations, then reverts.
# usage: tools/regress.sh [dir-with-patches] ; META.tsv lines: <patch-prefix>\t<property>\t<rule-substring>
set -u
dir=${1:-/verif/findings/regress}
cd /repo || exit 2
if [ -n "$(git status --porcelain)" ]; then echo "repo not clean"; exit 2; fi
pass=0; fail=0
while IFS=$'\t' read -r pfx prop rule; do
  [ -z "$pfx" ] && continue
  patch=$(ls $dir/${pfx}*.diff $dir/${pfx}/patch.diff 2>/dev/null | head -1)
  [ -z "$patch" ] && { echo "MISSING patch $pfx"; fail=$((fail+1)); continue; }
  if ! git apply "$patch" 2>/dev/null; then
    echo "NOAPPLY $pfx $patch"; git reset -q --hard HEAD; fail=$((fail+1)); continue
  fi
  out=$(/verif/bin/storagecheck -prop "$prop" -tier quick -verif /tmp/regress_verif 2>&1); rc=$?
  git reset -q --hard HEAD; git clean -fdq
  if [ $rc -eq 1 ] && echo "$out" | grep -q "rule=$rule"; then
    echo "CAUGHT  $pfx $prop $rule :: $(echo "$out" | grep "rule=$rule" | head -1 | cut -c1-150)"; pass=$((pass+1))
  else
    echo "MISSED  $pfx $prop $rule (rc=$rc) :: $(echo "$out" | grep -E '^(VIOLATED|UNDECIDED|OK)' | head -2 | cut -c1-200)"; fail=$((fail+1))
  fi
done < $dir/META.tsv
rm -rf /tmp/regress_verif
echo "caught=$pass missed=$fail"
[ $fail -eq 0 ]
